import sys, os; sys.path.insert(0, os.getcwd())

import smartquery
assert smartquery.__file__.startswith(os.getcwd()), smartquery.__file__

from decimal import Decimal

from smartquery import SqParser, ParserError
from smartquery.ast_ops import CodeOp, CallOp, ValueOp, NameOp, SliceOp

parser = SqParser()

# 1. A method call on an integer literal: NUMBER DOT NAME LPAREN RPAREN is derived by
#    "expression : expression DOT NAME LPAREN RPAREN" and must give CallOp(str, [1]).
tree = parser.parse('1.str()')
assert tree == CodeOp([CallOp('str', [ValueOp(Decimal(1))])]), tree

tree = parser.parse('x = 10.max(3) + 2.5.str()')
assert tree.lines[0].value.op1 == CallOp('max', [ValueOp(Decimal(10)), ValueOp(Decimal(3))]), tree
assert tree.lines[0].value.op2 == CallOp('str', [ValueOp(Decimal('2.5'))]), tree

# and it evaluates
assert parser.eval('7.str() + "!"') == '7!'

# 2. "1." is not a NUMBER token (NUMBER is digits, optionally followed by '.' and digits), so a
#    number followed by a dangling dot is not a sentence of the grammar.
for text in ['1.', 'x = 1.', '[1., 2]', 'a[1.:]', 'f(1.)']:
    try:
        tree = parser.parse(text)
    except ParserError:
        pass
    else:
        raise AssertionError(f'{text!r} is not derived by the grammar but was accepted: {tree}')

print('ok')
