#!/bin/bash
# tools/mut.sh <file-rel> <sed-expr> <PROP...> : apply a sed mutation to a scratch copy of /repo and run checks on it
f=$1; e=$2; shift 2
d=$(mktemp -d /tmp/mut-XXXX); cp -r /repo $d/repo; rm -rf $d/repo/.git
sed -i "$e" $d/repo/$f
if diff -q /repo/$f $d/repo/$f >/dev/null; then echo "MUTATION DID NOT APPLY"; fi
(cd $d/repo && timeout 600 /venv/bin/python -m pytest -q -p no:cacheprovider --deselect tests/test_sq_parser.py::TestBuiltinFunctions::test_rand_ab >/dev/null 2>&1 && echo "tests: pass" || echo "tests: FAIL")
for p in "$@"; do SQV_REPO=$d/repo /verif/check $p --no-evidence 2>/dev/null | grep -E "^C[0-9]+ tier|VIOLATION|KNOWN" | head -6; done
rm -rf $d
