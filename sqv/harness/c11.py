"""C11 harnesses: one call from an arbitrary (havoc'ed) parser state equals the same call on a fresh parser; real
histories (each failure kind, abandoned generators, other names mappings) followed by one call likewise."""
from sqv import hlib
from smartquery import SqParser
from smartquery.ast_ops import CodeOp, ValueOp
from smartquery.exceptions import ParserError
from sqv.api import PARSER

TEXTS = [
    "1 + 2",
    "a = 1\nb = 2\na + b",
    "(1 +",
    "[1,\n2,\n3]\nb",
    "x y",
    "1 $ 2",
    "f(1",
    "",
    "# c\n7",
    "a.g(\n1)\nc ]",
    "n = [1, 2]\nn | map(v => v + a)",
    "{'k': [1,\n 2]}['k'][1] + b",
    "for",
    "x = 1; y = (2\n+ 3); x + y",
    "rate * 2",
    "u += 1",
    "0 ** 0",
    "(0 - 8) ** 0.5",
    "10 / 3",
    "{1.0: 'a', 2.50: 'b'}",
    "{1: 'c', 2.5: 'd'}['1']",
    "x = {}\nx[7.0] = 1\nx[7] = 2\nkeys(x)",
    "round(1.5, 'x')",
    "round('1.5', 2)",
    "1 / 3 + 2 / 3 * 3",
    # history-only texts (no havoc obligation): names spelled like builtins are assigned, later programs call the builtins
    "sum = 0\nlen = [1]\nkeys = 2\nmax += 1\nstr = 'q'",
    "sum([1, 2]) + len('ab') + max(1, 5) + len(keys({'k': 1})) + len(str(12))",
    "int = x => 7\nint(2)",
    "int('41') + 1",
]
HISTORY_ONLY = {25, 26, 27, 28}


def outcome(p, call, text, names=None, budget=100):
    try:
        if call == 'parse':
            return ('ok', repr(p.parse(text)))
        if call == 'eval':
            nm = dict(names) if names is not None else {'a': 1, 'b': 2, 'f': (lambda *x: len(x)), 'g': (lambda *x: len(x)), 'c': 3}
            v = p.eval(text, nm, max_ops_evaluated=budget)
            return ('ok', repr(v), sorted(k for k in nm if isinstance(k, str)))
        return ('ok', list(p.list_names(text)))
    except Exception as e:
        return ('err', type(e).__name__, str(e))


import decimal as _d0
_c0 = _d0.getcontext()
GLOBALS0 = (_c0.prec, _c0.rounding, _c0.Emax, _c0.Emin, _c0.capitals, _c0.clamp, tuple(sorted(str(k) for k, v in _c0.traps.items() if v)))
EXPECTED = {}
with hlib.native():
    for _call in ('parse', 'eval', 'list_names'):
        for _i, _t in enumerate(TEXTS):
            EXPECTED[(_call, _i)] = outcome(SqParser(), _call, _t)


def havoc_call(lexpos: int, lineno: int, paren: int, leftover_ast: bool, leftover_stack: bool, leftover_input: bool) -> None:
    """
    pre: lexpos >= 0 and lineno >= 1
    post: True
    """
    # every finite history leaves SOME values in the parser's mutable fields; one call from all of them covers all histories
    hlib.enter(locals())
    call, ti = hlib.PARAM["call"], hlib.PARAM["t"]
    p = PARSER
    p.lex.lexpos = lexpos
    p.lex.lineno = lineno
    p.lex.paren_count = paren
    p.lex.ast = CodeOp([ValueOp(1)]) if leftover_ast else None
    if leftover_input:
        p.lex.lexdata = "zz ( ["
        p.lex.lexlen = 6
    if leftover_stack:
        p.yacc.statestack = [0, 5, 9]
        p.yacc.symstack = p.yacc.symstack[:1] * 3 if getattr(p.yacc, 'symstack', None) else []
    got = outcome(p, call, TEXTS[ti])
    assert got == EXPECTED[(call, ti)], "%s(%r) depends on state left on the parser by earlier calls" % (call, TEXTS[ti])
    hlib.done()


# real histories: (first call, second call) on ONE parser; the second must equal the same call on a fresh parser
def _first(p, kind, ti):
    t = TEXTS[ti]
    try:
        if kind == 0:
            p.parse(t)
        elif kind == 1:
            p.eval(t, {'a': 1, 'b': 2, 'rate': 5, 'u': 1, 'f': len, 'g': len, 'c': 0}, max_ops_evaluated=100)
        elif kind == 2:
            p.eval(t, {'a': 1, 'b': 2, 'rate': 5, 'u': 1}, max_ops_evaluated=3)       # ops-limit failures
        elif kind == 3:
            list(p.list_names(t))
        else:
            g = p.list_names(t)                 # abandoned midway
            next(g, None)
            next(g, None)
    except Exception:
        pass


SECOND_QUICK = [(0, 1), (0, 3), (1, 13), (1, 14), (1, 10), (2, 9), (1, 1), (0, 13), (1, 15), (2, 3), (1, 18), (1, 20), (1, 21), (1, 19), (1, 24), (1, 26), (1, 28)]


def hlib_reset():
    # every history starts from the same process state: functools caches of the package cleared, default decimal context
    for c in hlib._find_caches():
        c.cache_clear()
    _d0.setcontext(_d0.Context(prec=GLOBALS0[0], rounding=GLOBALS0[1], Emax=GLOBALS0[2], Emin=GLOBALS0[3], capitals=GLOBALS0[4], clamp=GLOBALS0[5],
                               traps=[_d0.InvalidOperation, _d0.DivisionByZero, _d0.Overflow]))


_POOL = []
if isinstance(hlib.PARAM, dict) and "t1" in hlib.PARAM and "quick" in hlib.PARAM:
    with hlib.native(unwalled=True):
        for _k in range(5 * (len(SECOND_QUICK) if hlib.PARAM["quick"] else 3 * len(TEXTS)) + 8):
            _POOL.append(SqParser())


def history_pair(kind: int, si: int) -> None:
    """
    pre: 0 <= kind <= 4 and 0 <= si < 90
    post: True
    """
    hlib.enter(locals())
    t1 = hlib.PARAM["t1"]
    second = SECOND_QUICK if hlib.PARAM["quick"] else [(c, t) for c in range(3) for t in range(len(TEXTS))]
    kind, si = hlib.concrete(kind, 0, 4), hlib.concrete(si, 0, 89)
    hlib.assume(si < len(second))
    call2, t2 = second[si]
    c2 = ('parse', 'eval', 'list_names')[call2]
    if _POOL:
        p = _POOL.pop()          # fresh parsers built at import (constructing one inside an explored path is ~10x slower)
    else:
        with hlib.native(unwalled=True):
            p = SqParser()
    with hlib.native():
        hlib_reset()
        _first(p, kind, t1)
        same = None
        if kind in (0, 1, 2):
            # the very same text again, through the same entry point and through the other one
            for c in (('parse', 'eval') if kind == 0 else ('eval', 'parse')):
                if outcome(p, c, TEXTS[t1]) != EXPECTED[(c, t1)]:
                    same = c
                    break
        got = outcome(p, c2, TEXTS[t2])
        # post-states of real histories lie inside the havoc domain of the obligation above
        dom = p.lex.lexpos >= 0 and p.lex.lineno >= 1 and isinstance(getattr(p.lex, 'paren_count', 0), int)
        import decimal as _d
        c = _d.getcontext()
        glob = (c.prec, c.rounding, c.Emax, c.Emin, c.capitals, c.clamp, tuple(sorted(str(k) for k, v in c.traps.items() if v)))
    assert glob == GLOBALS0, "a call left process-global state changed (decimal context %r, was %r)" % (glob, GLOBALS0)
    with hlib.native():
        pass
    assert same is None, "after %d/%r, %s of the SAME text again differs from a fresh parser" % (kind, TEXTS[t1], same)
    assert dom, "a real history leaves the lexer outside the havoc domain (havoc obligation would not cover it)"
    assert got == EXPECTED[(c2, t2)], "after %d/%r, %s(%r) differs from a fresh parser" % (kind, TEXTS[t1], c2, TEXTS[t2])
    hlib.done()


# a names mapping the host keeps across evaluations (lambdas defined by one program are called by later ones)
SCRIPTS = [
    ["f = x => [1, 2]", "push(f(0), 3)", "f(0)"],
    ["f = x => {'k': [1]}", "f(0)['k'].push(2)", "f(0)"],
    ["f = x => [[1], [2]]", "f(0)[0].push(9)\nf(0).pop()", "f(0)"],
    ["f = x => [x, [1]]", "y = f(5)\ny[1].push(7)\ninsert(f(6), 0, 0)", "f(2)"],
    ["f = x => 'ab'\ng = x => 10", "f(0) + 'c'\ng(0) + 1", "[f(0), g(0)]"],
    ["f = x => sorted([3, 1, 2])", "f(0).push(0)", "f(0)"],
]
_SKIP = {}
with hlib.native():
    for _si, _sc in enumerate(SCRIPTS):
        _nm = {}
        _p = SqParser()
        try:
            _p.eval(_sc[0], _nm)
            _SKIP[_si] = ('ok', repr(_p.eval(_sc[2], _nm)))
        except Exception as _e:
            _SKIP[_si] = ('err', type(_e).__name__)


def persisted_names(si: int, cached: bool, other_mapping: bool) -> None:
    """
    pre: 0 <= si < 6
    post: True
    """
    # define / use-and-mutate-the-result / use again, with the host's names mapping kept across the three evaluations:
    # the last result is what it would have been without the middle step
    hlib.enter(locals())
    si = hlib.concrete(si, 0, 5)
    cached = True if cached else False
    with hlib.native(unwalled=True):
        p = SqParser(parse_cache={}) if cached else SqParser()
    with hlib.native():
        nm = {}
        sc = SCRIPTS[si]
        res = None
        try:
            p.eval(sc[0], nm)
            try:
                p.eval(sc[1], dict(nm) if other_mapping else nm)
            except Exception:
                pass
            res = ('ok', repr(p.eval(sc[2], nm)))
        except Exception as e:
            res = ('err', type(e).__name__)
    if True:
        assert res == _SKIP[si], "script %r: the last evaluation gives %r, without the middle step it gives %r: a literal's value survived between evaluations" % (sc, res, _SKIP[si])
    hlib.done()


def lambda_after_failed_define(how: int, reps: int) -> None:
    """
    pre: 0 <= how <= 2 and 1 <= reps <= 40
    post: True
    """
    # an eval stores a lambda in the host's names and then FAILS (undefined name / runtime error / its ops limit); later
    # evals that call the lambda - for this or another names mapping - behave as if the defining eval had succeeded
    hlib.enter(locals())
    how, reps = hlib.concrete(how, 0, 2), hlib.concrete(reps, 1, 40)
    if _POOL:
        p = _POOL.pop()
    else:
        with hlib.native(unwalled=True):
            p = SqParser()
    with hlib.native():
        n1 = {'k': 1}
        try:
            p.eval("add_k = v => v + k\n" + ["nosuch", "1 / 0", "[1, 2, 3, 4, 5, 6, 7, 8, 9] | map(w => w) | len"][how], n1, max_ops_evaluated=12)
        except Exception:
            pass
        n2 = {'k': 100, 'add_k': n1.get('add_k')}
        outs = []
        for _ in range(reps):
            try:
                outs.append(('ok', repr(p.eval("add_k(1)", n2, max_ops_evaluated=20))))
            except Exception as e:
                outs.append(('err', type(e).__name__))
        try:
            own = ('ok', repr(p.eval("add_k(1)", n1, max_ops_evaluated=20)))
        except Exception as e:
            own = ('err', type(e).__name__)
        have = 'add_k' in n1
    hlib.assume(have)
    assert all(o == ('ok', "Decimal('101')") for o in outs), "a lambda defined by an eval that later failed, called for another names mapping (k = 100): %r" % (sorted(set(outs)),)
    assert own == ('ok', "Decimal('2')"), "a lambda defined by an eval that later failed, called for its own names mapping: %r" % (own,)
    hlib.done()
