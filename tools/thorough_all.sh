#!/bin/bash
# run every thorough check sequentially, recording time and verdict lines
for p in C01 C02 C03 C04 C05 C06 C07 C08 C09 C10 C11 C12 C13 C14 C15 C16 C17 C18 C19 C20; do
  s=$(date +%s)
  ./check $p --tier thorough --no-evidence 2>&1 | grep -E "tier=|INCONCLUSIVE|VIOLATION|Traceback" | cut -c1-250
  echo "== $p took $(( $(date +%s) - s ))s"
done
