"""C13 harnesses: non-mutating builtins leave their arguments exactly as they were."""
import copy as _copy
from decimal import Decimal as RealDecimal
from typing import List

from sqv import hlib
from smartquery import functions
from smartquery.functions import FUNCTIONS
from sqv.api import run_eval, prewarm
from sqv.randstub import RandStub

MUTATORS = {'push', 'pop', 'insert', 'remove', '__setitem__', '__setitem_with_op__', '__delitem__'}

# argument shapes per builtin: letters are argument kinds
#  L list of symbolic ints (length 0..3)   N nested list [[a],[b, c]]   D dict {'p': a, 'q': [b]}   S short concrete str
#  l n d: the same shapes with concrete elements (for builtins that format their argument: formatting realises symbolic ints)
#  I symbolic int   Z small concrete int   F1 one-arg function   F2 two-arg function   K key function   B symbolic bool
#  J host dict with int / tuple keys   U None   E Decimal   H host mapping with __missing__ (collections.defaultdict)   X a key that is absent
SHAPES = {
    'len': ['L', 'D', 'N', 'H', 'J'], 'int': ['I', 'E'], 'float': ['Z'], 'str': ['l', 'd', 'n'], 'dict': ['', 'D'], 'list': ['LD', 'N'],
    'startswith': ['SS', 'LS'], 'endswith': ['SS'], 'lower': ['S', 'L'], 'upper': ['S'], 'strip': ['S'], 'replace': ['SSS', 'LSS'],
    'match': ['LS', 'DS'], 'match_groups': ['LS'], 'match_all': ['LS', 'DS'],
    'pretty': ['d', 'l', 'n', 'E', 'dS', 'lS'], 'keys': ['D', 'H', 'J'], 'values': ['D', 'H', 'J'], 'items': ['D', 'H', 'J'], 'sum': ['L', 'N', 'D', 'Q'],
    'get': ['DS', 'DSL', 'DSN', 'HS', 'HX', 'HXL', 'JZ', 'JS', 'JZL'], '__getitem__': ['LZ', 'DS', 'NZ', 'LI', 'JZ', 'JS'],
    'map': ['LF1', 'NF1', 'DF2', 'SF1', 'HF2'], 'filter': ['LF1', 'NF1'], 'reduce': ['LF2', 'NF2'], 'join': ['l', 'lS', 'n', 'nS'], 'split': ['S', 'SS', 'LS'],
    'round': ['Z', 'E', 'EZ'], 'floor': ['Z', 'E'], 'ceil': ['Z', 'E'], 'abs': ['I', 'E'], 'min': ['L', 'II', 'N', 'Q', 'QQ'], 'max': ['L', 'II', 'N', 'Q', 'QQ'], 
    'rand': ['', 'L', 'N', 'II'],
    'sorted': ['L', 'LK', 'LKB', 'LUB', 'N', 'D', 'DF2', 'DUB', 'H', 'Q'], 'reversed': ['L', 'N', 'S'], 'enumerate': ['L', 'N', 'D', 'H'],
    'shuffle': ['L', 'N'], 'index_of': ['LI', 'NL'],
}
GENERIC = ['L', 'N', 'D', 'LL', 'LI', 'DS', 'LF1']
# rarely used argument forms, tried on EVERY non-mutator: lists in second / third position, lists of strings, mixed lists
ANY_POSITION = ['W', 'M', 'SW', 'WS', 'SWW', 'lW', 'WW', 'SM', 'dW', 'MK', 'SWZ', 'de', 'ed', 'ded', 'dn']


def _args(shape, a, b, c, n, flag):
    out = []
    i = 0
    kinds = []
    while i < len(shape):
        k = shape[i]
        if k == 'F' or (k == 'K'):
            if k == 'F':
                k = shape[i:i + 2]
                i += 1
        kinds.append(k)
        i += 1
    for k in kinds:
        if k == 'L':
            out.append([a, b, c, a, b][:n])
        elif k == 'N':
            out.append([[a], [b, c]])
        elif k == 'D':
            out.append({'p': a, 'q': [b]})
        elif k == 'e':
            out.append({'p': 4, 'q': [2], 'r': 5})          # a second concrete dict sharing keys with 'd'
        elif k == 'W':
            out.append([',', ';', ', ', 'abc', ''])          # strings of different lengths, not ordered by anything
        elif k == 'M':
            out.append([3, 'b', None, 1, 'a', [2]])          # values that cannot be ordered against each other
        elif k == 'l':
            out.append([3, 1, 2, 5, 4][:n])
        elif k == 'n':
            out.append([[3], [1, 2]])
        elif k == 'd':
            out.append({'p': 3, 'q': [1]})
        elif k == 'H':
            import collections
            out.append(collections.defaultdict(list, {'p': a, 'q': [b]}))      # host mapping with __missing__
        elif k == 'X':
            out.append('absent')
        elif k == 'Q':
            out.append([a, None, b, None])          # a list with None entries
        elif k == 'J':
            out.append({1: a, 2: [b], (3, 4): 'c'})      # host dict with non-string keys
        elif k == 'S':
            out.append('a,b')
        elif k == 'I':
            out.append(a)
        elif k == 'Z':
            out.append(1)
        elif k == 'F1':
            out.append(lambda v: v)
        elif k == 'F2':
            out.append(lambda x, y: x)
        elif k == 'K':
            out.append(lambda v: 0)
        elif k == 'B':
            out.append(True if flag else False)
        elif k == 'U':
            out.append(None)
        elif k == 'E':
            out.append(RealDecimal('2.5'))
    return out


def nonmut(a: int, b: int, c: int, n: int, flag: bool, d1: int, d2: int, d3: int) -> None:
    """
    pre: 0 <= n <= 5
    post: True
    """
    hlib.enter(locals())
    name, shape = hlib.PARAM["fn"], hlib.PARAM["shape"]
    hlib.assume(hlib.deep() or n <= 3)
    n = hlib.concrete(n, 0, 5)
    args = _args(shape, a, b, c, n, flag)
    snap = _copy.deepcopy([x for x in args if isinstance(x, (list, dict))])
    saved = functions.random
    functions.random = RandStub([d1, d2, d3], 0.5)
    try:
        try:
            FUNCTIONS[name](*args)
        except Exception:
            pass
    finally:
        functions.random = saved
    after = [x for x in args if isinstance(x, (list, dict))]
    assert after == snap, "builtin %s modified one of its arguments (shape %s)" % (name, shape)
    hlib.done()


PIPES = [
    "l | sorted | reversed", "l | sorted(v => zero - v) | len", "nn | map(v => v) | len", "d | sorted | keys", "d | items | len",
    "l | filter(v => v > zero) | sum", "shuffle(l) | len", "l | enumerate | map(p => p) | len", "cn | reversed | join(',')",
    "sorted(d, (k, v) => k, True)", "l | reduce((x, y) => x + y) if l else zero", "[l | min, l | max] if l else zero",
    "nn | sorted(v => len(v)) | reversed", "index_of(l, zero)", "get(d, 'q') | reversed", "values(d) | len", "pretty(cd) | len",
    "str(cn) | len", "rand(l) if l else zero", "d | map((k, v) => k) | sorted",
    "get(data, 'rows') | len", "data['rows'] | len", "table[one] | len", "max(l, big) | len", "[big, big] | reduce((p, q) => q) | len",
    "get(jd, one)", "jd[one]", "get(jd, 'x', zero)",
    # (28..) lambdas that concatenate: the operands of + are arguments too
    "nn | reduce((p, q) => p + q) | len", "nn | map(r => r + [zero]) | len", "sorted(nn, r => len(r + [one])) | len",
    "nn | filter(r => len(r + r) > zero) | len", "x = nn[zero] + [one]\ny = nn[one] + nn[zero]\nlen(x) + len(y)",
    "cn | reduce((p, q) => p + q) | sum", "u = nn[zero]\nv = u + [one] + u\nw = u\nw += [one]\nu == nn[zero]",
    # (35..) results of non-mutators kept in variables and handed to further non-mutators: the variable keeps its value (result must be True)
    "x = l | sorted\ny = x | reversed\nz = x | shuffle\nx == (l | sorted)",
    "t = nn | map(r => sorted(r))\nu = t | map(r => reversed(r))\nt == (nn | map(r => sorted(r)))",
    "x = l | filter(v => True)\ny = sorted(x, v => zero - v)\nx == l",
    "x = l | reversed\ny = x | sorted\nw = [x] | map(r => sorted(r))\nx == (l | reversed)",
    "x = cn | sorted(r => len(r))\ny = x | reversed\nz = x | map(r => reversed(r))\nx == [[3], [1, 2]]",
    # (40..) lambdas with more parameters than the rows they are handed have elements (may fail; must not touch the rows)
    "rag | map((p, q) => p) | len", "rag | filter((p, q) => p) | len", "sorted(rag, (p, q) => p) | len", "rag | map((p, q, r) => q) | len",
    "dict(d, cd) | len", "d | dict(cd) | len", "list(l, nn) | len",
]
MAY_FAIL_PIPES = set(range(40, 47))
MUST_BE_TRUE = set(range(35, 40)) | {34}
if isinstance(hlib.PARAM, dict) and "pipe" in hlib.PARAM:
    prewarm(PIPES[hlib.PARAM["pipe"]])


def pipeline(a: int, b: int, c: int, n: int, d1: int, d2: int, d3: int) -> None:
    """
    pre: 0 <= n <= 5
    post: True
    """
    hlib.enter(locals())
    hlib.assume(hlib.deep() or n <= 3)
    hlib.assume(n <= 3 or hlib.PARAM["pipe"] != 35)          # (the pipeline with shuffle: symbolic draws x list length)
    n = hlib.concrete(n, 0, 5)
    l = [a, b, c, a, b][:n]
    nn = [[a], [b, c]]
    d = {'p': a, 'q': [b, c]}
    cn, cd = [[3], [1, 2]], {'p': 3, 'q': [1, 2]}
    big = list(range(10025))
    data, table, jd = {'rows': big}, [[1], big], {1: 'one', 2: [2]}
    rag = [[a, b], [c], []]
    snap_rag = _copy.deepcopy(rag)
    snap = _copy.deepcopy((l, nn, d, cn, cd))
    big_len, jd_keys = len(big), list(jd)
    saved = functions.random
    functions.random = RandStub([d1, d2, d3], 0.5)
    try:
        out = run_eval(PIPES[hlib.PARAM["pipe"]], {'l': l, 'nn': nn, 'd': d, 'cn': cn, 'cd': cd, 'zero': 0, 'one': 1, 'big': big, 'data': data, 'table': table, 'jd': jd, 'rag': rag}, 1000)
    finally:
        functions.random = saved
    assert (l, nn, d, cn, cd) == snap, "pipeline of non-mutating builtins modified a host object"
    assert rag == snap_rag, "rows handed to a lambda with more parameters than they have elements were modified"
    assert len(big) == big_len and data['rows'] is big and table[1] is big, "a host list longer than the cap was modified by a non-mutating builtin"
    assert list(jd) == jd_keys, "a host dict with non-string keys was re-keyed by a read"
    assert out[0] == 'ok' or 25 <= hlib.PARAM["pipe"] <= 27 or (n == 0 and hlib.PARAM["pipe"] in (28, 33)) or hlib.PARAM["pipe"] in MAY_FAIL_PIPES, "pipeline failed: %s" % (out[1].__name__ if out[0] == 'err' else '')
    if hlib.PARAM["pipe"] in MUST_BE_TRUE:
        assert out[1] is True, "a value kept in a variable changed when it was handed to a non-mutating builtin / operator"
    hlib.done()
