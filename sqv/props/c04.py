from sqv.driver import Obligation

KINDS = "operand kinds int/bool (symbolic values), float from {2.5, -1e300}, str 'ab', list [1,2], Decimal from {3, 1E+30, 0.5}: all 36 pairs (kind indices symbolic)"


def plan(ctx):
    T = 40 if ctx["tier"] == "quick" else 240
    obs = []
    KN = ['int', 'bool', 'float', 'str', 'list', 'decimal']
    for op in ('*', '**'):
      for ka in range(6):
        obs.append(Obligation(f"route.binop.{op}.{KN[ka]}", "xh", "c04", "route_binop", param={"op": op, "ka": ka}, timeout=T, bounds=KINDS,
                              desc=f"BinOp('{op}') = Decimal(op1) {op} Decimal(op2) on the operands themselves, or an error; never native / repetition"))
    for site in ('name', 'list', 'dict'):
      for ka in range(6):
        obs.append(Obligation(f"route.shortop.{site}.{KN[ka]}", "xh", "c04", "route_shortop", param={"site": site, "ka": ka}, timeout=T, bounds=KINDS,
                              desc=f"compound assignment *= ({site} target): Decimal product or error; never native / repetition"))
    obs.append(Obligation("context", "xh", "c04", "context_unchanged", timeout=T, bounds="-", desc="decimal context after import: prec 28, half-even, Emax 999999"))
    for op in ('+', '-', '==', '<', '>='):
        obs.append(Obligation(f"native.{op}", "xh", "c04", "native_bin", param={"op": op}, timeout=T, bounds="host ints unbounded",
                              desc=f"|a {op} b| <= 2*max(|a|,|b|) (at most one more digit)"))
    obs.append(Obligation("native.neg", "xh", "c04", "native_neg", timeout=T, bounds="host int unbounded", desc="-a"))
    for fn in ('floor', 'ceil'):
        obs.append(Obligation(f"builtin.{fn}", "xh", "c04", "builtin_small", param={"fn": fn}, timeout=T, bounds="host int in -6..6 (math.floor/ceil/round are C functions: CrossHair enumerates)",
                              desc=f"{fn} on a host int: identity, built from str/int, never through float"))
    for fn in ('int', 'abs', 'sum', 'min', 'max'):
        obs.append(Obligation(f"builtin.{fn}", "xh", "c04", "builtin_num", param={"fn": fn}, timeout=T, bounds="host ints unbounded; sum/min/max over 3 values",
                              desc=f"{fn} on host ints: result no wider than 3x the widest argument, never through float"))
    DP = "real Decimals from a pool of 8 (+2 with huge exponents) and host ints from a pool of 8 (up to 30 digits), pool indices and round() places 0..40 symbolic (finite domain)"
    for fn in ('int', 'float', 'round', 'floor', 'ceil', 'abs', 'sum', 'min', 'max'):
        obs.append(Obligation(f"digits.builtin.{fn}", "xh", "c04", "builtin_digits", param={"fn": fn}, timeout=T * 2, bounds=DP,
                              desc=f"real {fn} on real Decimals: <= max(28, widest argument + 1) significant digits; context untouched"))
    for op in ('+', '-', '*', '/', '**', 'neg', '+=', '-=', '*=', '/='):
        obs.append(Obligation(f"digits.operator.{op}", "xh", "c04", "operator_digits", param={"op": op}, timeout=T * 2, bounds=DP,
                              desc=f"real operator {op} on real Decimals: digit bound; context untouched"))
    from sqv.harness import c04 as h0
    for op in h0.known_short_ops():
        obs.append(Obligation(f"digits.item_operator.{op}", "xh", "c04", "item_operator_digits", param={"op": op}, timeout=T * 2,
                              bounds="item a from 8 host ints (up to 30 digits, incl. a bool), operand from 8 host ints (incl. 5000 and a 31-digit one); list or dict container (finite domain, native); the operator list is whatever compound operators the real lexer tokenises",
                              desc=f"o[k] {op} v on host numbers: what is left in the container has at most max(28, widest operand + 1) significant digits and nothing is repeated"))
    obs.append(Obligation("digits.power_overflow", "xh", "c04", "power_overflow", timeout=T * 2,
                          bounds="host int bases from 6 values, exponents 2.1 / 3.4 / 4.0 million (result beyond 1E+999999); operator or compound form (finite domain, native)",
                          desc="a power of host ints beyond the decimal range raises an arithmetic error; no exact big integer is produced"))
    from sqv.harness import c04 as h
    for i, text in enumerate(h.TEXTS):
        obs.append(Obligation(f"text.t{i}", "xh", "c04", "text_digits", param={"t": i}, timeout=T * 2,
                              bounds="host ints a, b from a pool of 8 (up to 30 digits, incl. a bool; indices symbolic); with / without a parse cache (evaluated twice)",
                              desc=f"eval({text!r}): a Decimal of at most max(28, widest operand + 1) significant digits; context untouched (covers what the parser does to the text)"))
    return {
        "obligations": obs,
        "uncovered": ["builtin round on symbolic ints: CrossHair's model of round(x, None) produced a counterexample that does not "
                      "reproduce under plain Python, so the obligation was dropped (covered only at the routing level by C08)"],
        "explanation": "CrossHair (z3): routing of *, **, *= over every pair of host-suppliable operand kinds with Decimal replaced by a "
                       "recording stub (so 'converted before multiplying' is visible), LIA magnitude lemmas for the native int paths.",
        "functions": ["smartquery.ast_ops.BinOp.eval", "ShortOp.eval", "UnaryOp.eval", "smartquery.functions._set_with_op", "FUNCTIONS[int/abs/floor/ceil/round/sum/min/max]"],
        "files": ["smartquery/ast_ops.py", "smartquery/functions.py", "smartquery/custom_types.py"],
        "bounds": "ints/floats unbounded symbolic; non-numeric operands and Decimals from small concrete pools",
        "outside": "the digits of Decimal results (libmpdec under the default context: <= 28 digits by the decimal module's contract); float arithmetic",
        "stubs": ["Decimal recording stub (sqv/decstub.py)", "stub child nodes"],
        "assumptions": ["decimal module: context operations round to <= prec digits; constructor exact"],
        "trusted": ["CrossHair 0.0.110", "z3", "decimal (libmpdec)"],
    }
