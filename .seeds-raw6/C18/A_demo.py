import sys, os; sys.path.insert(0, os.getcwd())

import smartquery
from smartquery import SqParser, ParserError

assert smartquery.__file__.startswith(os.getcwd()), smartquery.__file__

parser = SqParser()

# sanity: single calls behave as specified
assert list(parser.list_names('total = price * qty  # note')) == ['total', 'price', 'qty']
try:
    list(parser.list_names('price ? qty'))
except ParserError:
    pass
else:
    raise AssertionError('lexically invalid text must make list_names raise ParserError')
assert list(parser.list_names('price * qty')) == ['price', 'qty']

# an earlier, failed evaluation: the text holds an illegal character and is also syntactically wrong
try:
    parser.eval('price ? qty', names={'price': 1, 'qty': 2})
except ParserError:
    pass
else:
    raise AssertionError('evaluating a lexically invalid text must fail')

# ... must not influence what list_names reports for a perfectly good program afterwards
source = 'total = price * qty; %grand total% = total | round(2)'
expected = ['total', 'price', 'qty', '%grand total%', 'total', 'round']
try:
    got = list(parser.list_names(source))
except ParserError as e:
    raise AssertionError(f'list_names raised {e!r} on a valid program after an earlier failed eval()')
assert got == expected, got

# and the names looked up by the evaluation are covered
asked = []


class Names(dict):
    def __contains__(self, k):
        asked.append(k)
        return super().__contains__(k)


names = Names(price=3, qty=4)
parser.eval(source, names=names)
implicit = {'list', 'dict', '__getitem__', '__setitem__', '__setitem_with_op__', '__delitem__'}
assert set(asked) - implicit <= set(got), (asked, got)
print('ok')
