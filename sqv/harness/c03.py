"""C03 harnesses: the 10000-element cap on lists and dicts."""
from typing import List, Dict

from sqv import hlib
from smartquery import functions
from smartquery.functions import FUNCTIONS
from smartquery.exceptions import ParserError
from sqv.api import run_eval, prewarm

CAP = 10000


def cap_constant(x: int) -> None:
    """
    pre: True
    post: True
    """
    # the constant the code compares with is the one the property states (decided by the solver for all x:
    # (x >= MAX) == (x >= 10000) holds for every integer x iff MAX == 10000)
    hlib.enter(locals())
    assert (x >= functions.MAX_ARRAY_SIZE) == (x >= CAP), "MAX_ARRAY_SIZE differs from the stated cap of 10000"
    hlib.done()


def _call(name, arr, i, v):
    f = FUNCTIONS[name]
    if name == 'push':
        return f(arr, v)
    if name == 'insert':
        return f(arr, i, v)
    if name == '__setitem__':
        return f(arr, i, v)
    if name == '__setitem_with_op__':
        return f(arr, i, hlib.PARAM.get("op", '+='), v)
    raise AssertionError("unknown mutator " + name)


def mut_list(arr: List[int], i: int, v: int, j: int) -> None:
    """
    pre: 0 <= j < len(arr)
    post: True
    """
    hlib.enter(locals())
    name = hlib.PARAM["fn"]
    n0 = len(arr)
    old_j = arr[j]
    raised = None
    try:
        _call(name, arr, i, v)
    except Exception as e:
        raised = e
    if n0 >= CAP:
        assert isinstance(raised, ParserError), "element-adding operation on a full list did not fail with ParserError"
        assert len(arr) == n0 and arr[j] == old_j, "full list changed by a failing operation"
    else:
        assert len(arr) <= n0 + 1 and len(arr) <= CAP, "list grew by more than one element / beyond the cap"
        if name in ('push', 'insert'):
            assert raised is None and len(arr) == n0 + 1, "push/insert below the cap must add exactly one element"
        if raised is not None:
            assert len(arr) == n0, "failed operation changed the list length"
    hlib.done()


def mut_list_empty(v: int, i: int) -> None:
    """
    pre: -3 <= i <= 3
    post: True
    """
    hlib.enter(locals())
    name = hlib.PARAM["fn"]
    arr = []
    try:
        _call(name, arr, i, v)
    except Exception:
        pass
    assert len(arr) <= 1
    if name in ('push', 'insert'):
        assert arr == [v]
    hlib.done()


class LenDict(dict):
    """dict whose length is a symbolic int and whose mutators only log (contents abstracted)"""

    def __init__(self, n, has):
        super().__init__()
        self.n = n
        self.has = has
        self.log = []

    def __len__(self):
        return self.n

    def __contains__(self, k):
        return self.has

    def __getitem__(self, k):
        if not self.has:
            raise KeyError(k)
        return 1

    def __setitem__(self, k, v):
        self.log.append(k)
        if not self.has:
            self.n = self.n + 1

    def get(self, k, d=None):
        return 1 if self.has else d


def mut_dict(n: int, has: bool, v: int) -> None:
    """
    pre: n >= 0
    post: True
    """
    hlib.enter(locals())
    name = hlib.PARAM["fn"]
    d = LenDict(n, has)
    raised = None
    try:
        _call(name, d, 'k', v)
    except Exception as e:
        raised = e
    if n >= CAP:
        assert isinstance(raised, ParserError), "element-adding operation on a full dict did not fail with ParserError"
        assert d.log == [], "full dict written to by a failing operation"
    else:
        assert len(d.log) <= 1 and d.n <= CAP, "dict grew by more than one entry / beyond the cap"
    hlib.done()


API_TEXTS = {
    "push": "arr.push(v)",
    "push_pipe": "arr | push(v)",
    "insert": "insert(arr, i, v)",
    "setitem": "arr[i] = v",
    "setitem_op": "arr[i] += v",
    "setitem_op_mul": "arr[i] -= v",
}
if isinstance(hlib.PARAM, dict) and "api" in hlib.PARAM:
    prewarm(API_TEXTS[hlib.PARAM["api"]])
if isinstance(hlib.PARAM, dict) and "text" in hlib.PARAM:
    prewarm(hlib.PARAM["text"])


def api_mut(arr: List[int], i: int, v: int, j: int) -> None:
    """
    pre: 0 <= j < len(arr)
    post: True
    """
    hlib.enter(locals())
    text = API_TEXTS[hlib.PARAM["api"]]
    n0 = len(arr)
    old_j = arr[j]
    out = run_eval(text, {'arr': arr, 'i': i, 'v': v}, 1000)
    if n0 >= CAP:
        assert out[0] == 'err' and issubclass(out[1], ParserError), "element-adding operation on a full list did not fail with ParserError"
        assert len(arr) == n0 and arr[j] == old_j, "full list changed"
    else:
        assert len(arr) <= n0 + 1 and len(arr) <= CAP
    hlib.done()


class SizedList(list):
    """list stand-in whose LENGTH is a symbolic int (contents abstracted): concatenation and repetition add /
    multiply lengths exactly as list does.  Under replay real lists of that length are used instead."""

    def __init__(self, n=0):
        super().__init__()
        self.n = n

    def __len__(self):
        return self.n

    def __add__(self, other):
        if not isinstance(other, list):
            return NotImplemented
        return SizedList(self.n + len(other))

    __radd__ = __add__

    def __iadd__(self, other):
        self.n = self.n + len(other)
        return self

    def __mul__(self, k):
        if not isinstance(k, int):
            return NotImplemented
        return SizedList(self.n * k if k > 0 else 0)

    __rmul__ = __mul__

    def __imul__(self, k):
        if not isinstance(k, int):
            return NotImplemented
        self.n = self.n * k if k > 0 else 0
        return self

    def __deepcopy__(self, memo):
        return SizedList(self.n)

    def __copy__(self):
        return SizedList(self.n)


class SizedStr(str):
    """str stand-in whose LENGTH is a symbolic int; concatenation adds lengths.  Replay uses real strings."""

    def __new__(cls, n=0):
        o = str.__new__(cls, '')
        o.n = n
        return o

    def __len__(self):
        return self.n

    def __add__(self, other):
        if not isinstance(other, str):
            return NotImplemented
        return SizedStr(self.n + len(other))

    __radd__ = __add__

    def __deepcopy__(self, memo):
        return self

    def __copy__(self):
        return self


def _replaying():
    import os
    return os.environ.get("SQV_MODE") == "replay"


def _mk(n):
    return [0] * n if _replaying() else SizedList(n)


class SizedMut(SizedList):
    """SizedList whose element-adding methods adjust the symbolic length (contents abstracted)"""

    def append(self, v):
        self.n = self.n + 1

    def insert(self, i, v):
        self.n = self.n + 1

    def extend(self, other):
        self.n = self.n + len(other)

    def __setitem__(self, i, v):
        if not (-self.n <= i < self.n):
            raise IndexError("list assignment index out of range")

    def pop(self, i=-1):
        if not (-self.n <= i < self.n):
            raise IndexError("pop index out of range")
        self.n = self.n - 1
        return 0

    def __delitem__(self, i):
        if not (-self.n <= i < self.n):
            raise IndexError("list assignment index out of range")
        self.n = self.n - 1

    def remove(self, v):
        if self.n <= 0:
            raise ValueError("list.remove(x): x not in list")
        self.n = self.n - 1

    def __getitem__(self, i):
        if isinstance(i, slice):
            return SizedMut(0)
        if not (-self.n <= i < self.n):
            raise IndexError("list index out of range")
        return 0


def mut_sized(n: int, i: int, v: int) -> None:
    """
    pre: n >= 0
    post: True
    """
    # same obligation as mut_list, with the list abstracted to its LENGTH: counterexamples near the cap are then two
    # integers instead of a 10000-element list (which CrossHair cannot realise); the replay builds the real list
    hlib.enter(locals())
    name = hlib.PARAM["fn"]
    arr = [0] * n if _replaying() else SizedMut(n)
    raised = None
    try:
        _call(name, arr, i, v)
    except Exception as e:
        raised = e
    if n >= CAP:
        assert isinstance(raised, ParserError), "element-adding operation on a full list did not fail with ParserError"
        assert len(arr) == n, "full list changed by a failing operation"
    else:
        assert len(arr) <= n + 1 and len(arr) <= CAP, "list grew by more than one element / beyond the cap"
    hlib.done()


def sized_any(n: int, i: int, rel: bool, extra: int, indexed: bool) -> None:
    """
    pre: 9996 <= n <= 10001 and 0 <= extra <= 4 and -1 <= i <= 1
    post: True
    """
    # ANY entry of the function table, called with a list whose length is near the cap first and 0..5 further arguments
    # (rarely used / surplus argument forms included): whatever it does, a list below the cap does not end above it
    # and a full list does not grow
    hlib.enter(locals())
    name = hlib.PARAM["fn"]
    extra, i, v = hlib.concrete(extra, 0, 4), hlib.concrete(i, -1, 1), 1
    hlib.assume(indexed or (i == 0 and not rel))
    arr = [0] * n if _replaying() else SizedMut(n)
    if rel:
        i = n + i          # positions around the end of the list
    args = ([i] if indexed else []) + [v] * extra
    try:
        FUNCTIONS[name](arr, *args)
    except Exception:
        pass
    if n >= CAP:
        assert len(arr) <= n, "%s(list, %d further arguments) made a full list longer" % (name, len(args))
    else:
        assert len(arr) <= CAP, "%s(list, %d further arguments) grew a list beyond the cap" % (name, len(args))
    hlib.done()


def growth_str(na: int, nb: int) -> None:
    """
    pre: 0 <= na and 0 <= nb
    post: True
    """
    # strings are turned into lists of (about) their length by map / split / match_all, so a route that builds a
    # string longer than every supplied one defeats the cap on lists
    hlib.enter(locals())
    text = hlib.PARAM["text"]
    rep = _replaying()
    a, b = ('x' * na, 'x' * nb) if rep else (SizedStr(na), SizedStr(nb))
    names = {'a': a, 'b': b}
    bound = max(CAP, na, nb)
    out = run_eval(text, names, 1000)
    res = out[1] if out[0] == 'ok' else None
    if isinstance(res, str):
        if rep:
            # real strings: show the list
            out2 = run_eval("r | map(c => c)", {'r': res}, 10**6)
            assert out2[0] == 'ok' and isinstance(out2[1], list)
            assert len(out2[1]) <= bound, "cap bypass: string built by the program mapped to a list longer than 10000 and than every operand"
        else:
            assert len(res) <= bound, "cap bypass: string built by the program mapped to a list longer than 10000 and than every operand"
    hlib.done()


def growth_sized(na: int, nb: int, k: int) -> None:
    """
    pre: 0 <= na and 0 <= nb and 0 <= k <= 3
    post: True
    """
    # routes that can return a list longer than each operand (concatenation, repetition) must enforce the cap
    hlib.enter(locals())
    text = hlib.PARAM["text"]
    a, b = _mk(na), _mk(nb)
    names = {'a': a, 'b': b, 'k': k}
    bound = max(CAP, na, nb)
    out = run_eval(text, names, 1000)
    for x in ((out[1] if out[0] == 'ok' else None), names.get('a'), names.get('b'), names.get('x')):
        if isinstance(x, list):
            assert len(x) <= bound, "cap bypass: list longer than 10000 and than every operand"
            for y in x[:1]:
                if isinstance(y, list):
                    assert len(y) <= bound, "cap bypass: list longer than 10000 and than every operand"
    hlib.done()


def growth_small(a: List[int], b: List[int], s: str, k: int) -> None:
    """
    pre: len(a) <= 3 and len(b) <= 3 and len(s) <= 3 and -3 <= k <= 3
    post: True
    """
    # every other route: the result is never longer than its longest operand (or the literal it spells out),
    # so it cannot be used to outgrow the cap
    hlib.enter(locals())
    text = hlib.PARAM["text"]
    names = {'a': a, 'b': b, 's': s, 'k': k}
    bound = max(len(a), len(b), len(s), hlib.PARAM.get("lit", 0))
    out = run_eval(text, names, 1000)
    if out[0] == 'ok':
        for x in (out[1], names.get('a'), names.get('b'), names.get('x')):
            if isinstance(x, (list, dict)):
                assert len(x) <= bound, "route returns a container longer than its longest operand without enforcing the cap"
    hlib.done()


# ---- two or three real containers handed to ANY builtin (rarely used multi-argument forms) -----------------------------
POOL_N = [0, 1, 6000, 9999, 10000]


def pair_growth(fi: int, n1i: int, n2i: int, kind: int) -> None:
    """
    pre: 0 <= n1i < 5 and 0 <= n2i < 5 and 0 <= kind <= 2
    post: True
    """
    hlib.enter(locals())
    names = sorted(k for k in FUNCTIONS if k not in ('rand', 'shuffle', 'match', 'match_groups', 'match_all', 'pretty'))
    hlib.assume(0 <= fi < len(names))
    fi, n1i, n2i, kind = hlib.concrete(fi, 0, len(names) - 1), hlib.concrete(n1i, 0, 4), hlib.concrete(n2i, 0, 4), hlib.concrete(kind, 0, 2)
    name = names[fi]
    bad = None
    with hlib.native():
        n1, n2 = POOL_N[n1i], POOL_N[n2i]
        if kind == 1:
            args = [list(range(n1)), list(range(n2))]
        else:
            args = [{('a%d' % i): i for i in range(n1)}, {('b%d' % i): i for i in range(n2)}]
            if kind == 2:
                args.append({('c%d' % i): i for i in range(n2)})
        before = [len(x) for x in args]
        try:
            r = FUNCTIONS[name](*args)
        except Exception:
            r = None
        bound = max([CAP] + before)
        if isinstance(r, (list, dict)) and len(r) > bound:
            bad = "%s(%s) returned a %s of %d elements (bound %d)" % (name, ', '.join('%s of %d' % (type(x).__name__, b) for x, b in zip(args, before)), type(r).__name__, len(r), bound)
        for x, b in zip(args, before):
            if len(x) > max(CAP, b):
                bad = "%s grew an argument from %d to %d elements" % (name, b, len(x))
    assert bad is None, bad
    hlib.done()


from sqv.harness import txt as _t          # (its parsers are constructed at import, outside any explored path)


# ---- the cap does not depend on earlier evaluations ---------------------------------------------------------------------
FIRST = ["len(big)", "big[0] + nosuch", "big.push(1)", "x = big\nx | map(v => v) | len", "big + big", "1 +"]
SECOND = [("arr.push(1)", 'arr'), ("insert(arr, 0, 1)", 'arr'), ("arr += [1]\narr", 'arr'), ("y = arr + [1]\ny", 'y'), ("d['new'] = 1", 'd'),
          ("arr[0] = [1]", 'arr')]


def history_cap(n1i: int, fi: int, si: int, same_parser: bool) -> None:
    """
    pre: 0 <= n1i < 4 and 0 <= fi < 6 and 0 <= si < 6
    post: True
    """
    # an earlier evaluation (succeeding or failing) over host containers of any length leaves the cap where it was
    hlib.enter(locals())
    n1i, fi, si = hlib.concrete(n1i, 0, 3), hlib.concrete(fi, 0, 5), hlib.concrete(si, 0, 5)
    same_parser = True if same_parser else False
    bad = None
    with hlib.native():
        n1 = [0, 10000, 10001, 25000][n1i]
        p1 = _t.PARSER
        p2 = p1 if same_parser else _t.CACHING
        try:
            p1.eval(FIRST[fi], {'big': list(range(n1)), 'bd': {i: i for i in range(n1)}}, max_ops_evaluated=10**6)
        except Exception:
            pass
        arr, d = list(range(CAP)), {('k%d' % i): i for i in range(CAP)}
        nm = {'arr': arr, 'd': d}
        text, watch = SECOND[si]
        try:
            p2.eval(text, nm, max_ops_evaluated=10**6)
            failed = None
        except Exception as e:
            failed = e
        grown = {k: len(v) for k, v in nm.items() if isinstance(v, (list, dict)) and len(v) > CAP}
        if grown:
            bad = "after eval(%r) with a %d-element host list, %r made %s longer than the cap" % (FIRST[fi], n1, text, grown)
        elif si != 5 and not isinstance(failed, ParserError):
            bad = "after eval(%r) with a %d-element host list, %r on a full container did not fail with ParserError (%r)" % (FIRST[fi], n1, text, failed)
    assert bad is None, bad
    hlib.done()
