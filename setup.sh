#!/bin/bash
# Builds /verif/.venv offline: overlay over /venv (repo deps: regex, pytest) + crosshair-tool + z3-solver
# from the local wheelhouse. Idempotent, guarded by a lock; invoked by MANIFEST.setup_cmd and by ./check.
set -e
HERE="$(cd "$(dirname "$0")" && pwd)"
VENV="$HERE/.venv"
STAMP="$VENV/.ok"
exec 9>"$HERE/.setup.lock"
flock 9
if [ -f "$STAMP" ]; then exit 0; fi
rm -rf "$VENV"
/venv/bin/python -m venv "$VENV"
SP=$("$VENV/bin/python" -c 'import sysconfig;print(sysconfig.get_paths()["purelib"])')
echo "import site; site.addsitedir('/venv/lib/python3.12/site-packages')" > "$SP/_overlay.pth"
PIP_NO_INDEX=1 "$VENV/bin/pip" install -q --no-index --find-links /opt/veriftools/wheels crosshair-tool z3-solver >/dev/null
"$VENV/bin/python" -c 'import crosshair, z3, regex'
touch "$STAMP"
