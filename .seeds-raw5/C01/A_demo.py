import sys, os; sys.path.insert(0, os.getcwd())

import smartquery
from smartquery import SqParser
from smartquery.exceptions import ParserError, OpsExecutionLimitExceededError

assert smartquery.__file__.startswith(os.getcwd()), smartquery.__file__

parser = SqParser()
N = 20
ticks = []


def tick(v):
    ticks.append(v)
    return v


def probe(expr):
    # host callback: evaluates a small user-supplied snippet with the same names,
    # tolerating the snippet's failure (here: an undefined variable)
    try:
        return parser.eval(expr, names=names, max_ops_evaluated=10 ** 6)
    except ParserError:
        return None


names = {'tick': tick, 'probe': probe, 'l': list(range(50))}

program = 'probe("no_such_variable")\nl | map(v => tick(v))'

# reference: the program needs far more than N operations (2 per item, 50 items)
try:
    res = parser.eval(program, names=names, max_ops_evaluated=N)
except OpsExecutionLimitExceededError:
    res = 'LIMIT'

print('result:', res if res == 'LIMIT' else 'returned normally', '| host-visible ticks:', len(ticks))

assert res == 'LIMIT', 'budget %d not enforced: eval returned normally' % N
# every tick needs at least 2 ops of the budgeted eval (CallOp + NameOp in the lambda body)
assert 2 * len(ticks) < N, 'more than N operations were started: %d ticks with N=%d' % (len(ticks), N)

# control: same program, the nested snippet succeeds -> budget is enforced as well
ticks.clear()
try:
    res = parser.eval('probe("1 + 1")\nl | map(v => tick(v))', names=names, max_ops_evaluated=N)
except OpsExecutionLimitExceededError:
    res = 'LIMIT'
assert res == 'LIMIT' and 2 * len(ticks) < N

print('OK')
