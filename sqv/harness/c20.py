"""C20 harnesses (lexer rule functions and p_error): line bookkeeping and message content."""
from sqv import hlib
from sqv.pstub import Tok, Lexer
from smartquery import lexer, rules
from smartquery.exceptions import ParserError

NL = ['\n', '\r\n', ';']


def newline_step(line: int, depth: int, which: int) -> None:
    """
    pre: line >= 1 and depth >= 0 and 0 <= which <= 2
    post: True
    """
    # invariant: lexer.lineno == 1 + number of line feeds before the current offset.  One step of the NEWLINE rule
    # from an arbitrary state that satisfies it must re-establish it; the returned token carries its own line.
    hlib.enter(locals())
    lx = Lexer(line, depth)
    t = Tok('NEWLINE', NL[which], line, lx)
    r = lexer.t_NEWLINE(t)
    assert lx.lineno == line + NL[which].count('\n'), \
        "line counter after %r at bracket depth %s is not the physical line" % (NL[which], 'zero' if depth == 0 else 'positive')
    assert lx.paren_count == depth
    if which == 2 or depth == 0:
        assert r is t and r.type == 'NEWLINE' and r.lineno == line, "separator token not returned / carries the wrong line"
    else:
        assert r is None, "line break inside brackets must be ignored"
    hlib.done()


def rule_step(line: int, depth: int, vi: int) -> None:
    """
    pre: line >= 1 and depth >= 0 and 0 <= vi < 64
    post: True
    """
    # every other rule function: line counter advances by the number of line feeds in the matched text,
    # bracket depth by +1/-1 for opening/closing brackets only
    hlib.enter(locals())
    name = hlib.PARAM["rule"]
    pool = hlib.PARAM["pool"]
    hlib.assume(vi < len(pool))
    text = pool[vi]
    lx = Lexer(line, depth)
    t = Tok(name[2:], text, line, lx)
    r = getattr(lexer, name)(t)
    assert lx.lineno == line + text.count('\n'), "rule %s: line counter does not advance by the line feeds in the matched text" % name
    d = {'t_LPAREN': 1, 't_LBRACKET': 1, 't_LBRACE': 1, 't_RPAREN': -1, 't_RBRACKET': -1, 't_RBRACE': -1}.get(name, 0)
    assert lx.paren_count == depth + d, "rule %s: bracket depth changed wrongly" % name
    if r is not None:
        assert r.lineno == line, "token does not carry the line it starts on"
    hlib.done()


def p_error_message(tl: int, ll: int, vi: int) -> None:
    """
    pre: 1 <= tl <= 4 and 1 <= ll <= 4 and 0 <= vi <= 7
    post: True
    """
    hlib.enter(locals())
    from smartquery.custom_types import Decimal
    vi = hlib.concrete(vi, 0, 7)
    ttype, value = [('NAME', 'asd'), ('RPAREN', ')'), ('PLUS', '+'), ('NUMBER', '12.5'), ('NEWLINE', ';'), ('STRING', 'a b'),
                    ('IF', 'if'), ('SHORT_OP', '+=')][vi]
    tok = Tok(ttype, Decimal(value) if ttype == 'NUMBER' else value, tl, Lexer(ll))
    msg = None
    try:
        rules.p_error(tok)
    except ParserError as e:
        msg = str(e)
    assert msg is not None
    assert value in msg, "syntax-error message does not name the offending token's text (token type %s)" % ttype
    assert 'end of input' not in msg.lower(), "an error at a token in the middle of the text is reported as end of input"
    assert ('line %d' % tl) in msg and (tl == ll or ('line %d' % ll) not in msg), \
        "syntax-error message reports the lexer's current line, not the line of the offending token"
    hlib.done()


def p_error_eof(x: int) -> None:
    """
    pre: True
    post: True
    """
    hlib.enter(locals())
    msg = None
    try:
        rules.p_error(None)
    except ParserError as e:
        msg = str(e)
    assert msg is not None and 'end of input' in msg.lower(), "error at the end of the text is not reported as an unexpected end of input"
    hlib.done()
