"""C14 harnesses: one container operation from an arbitrary small container, against the model in spec/."""
from decimal import Decimal as RealDecimal

from sqv import hlib
from spec import container_model as M
from smartquery.exceptions import ParserError
from smartquery.custom_types import Decimal
from sqv.api import run_eval, prewarm, PARSER as PARSER_PLAIN

DEC_IDX = [Decimal('0'), Decimal('1'), Decimal('1.7'), Decimal('-1'), Decimal('-1.5'), Decimal('2.999'), Decimal('-0.3'),
           Decimal('5'), Decimal('-5'), Decimal('3'), Decimal('-4')]
KEYS = [1, Decimal('1'), Decimal('1.0'), Decimal('1.50'), True, False, None, 'a', '1', 'None', 'True', '', 0, -1, Decimal('-0')]

LIST_OPS = {
    "read": ("l[i]", lambda l, i, v: M.l_read(l, i)),
    "write": ("l[i] = v", lambda l, i, v: M.l_write(l, i, v)),
    "del": ("del l[i]", lambda l, i, v: M.l_del(l, i)),
    "push": ("l.push(v)", lambda l, i, v: M.l_push(l, v)),
    "pop": ("l.pop()", lambda l, i, v: M.l_pop(l)),
    "pop_i": ("l.pop(i)", lambda l, i, v: M.l_pop(l, i)),
    "insert": ("insert(l, i, v)", lambda l, i, v: M.l_insert(l, i, v)),
    "remove": ("remove(l, v)", lambda l, i, v: M.l_remove(l, v)),
    "index_of": ("index_of(l, v)", lambda l, i, v: M.l_index_of(l, v)),
    "len": ("len(l)", lambda l, i, v: (('ok', len(l)), list(l))),
    "in": ("v in l", lambda l, i, v: (('ok', any(x == v for x in l)), list(l))),
    "not_in": ("v not in l", lambda l, i, v: (('ok', not any(x == v for x in l)), list(l))),
    "read_fn": ("__getitem__(l, i)", lambda l, i, v: M.l_read(l, i)),
}
if isinstance(hlib.PARAM, dict) and "lop" in hlib.PARAM:
    prewarm(LIST_OPS[hlib.PARAM["lop"]][0])


def _check(out, exp, cont, model, what):
    kind = exp[0]
    assert cont == model, what + ": container contents differ from the model afterwards"
    if kind == 'ok':
        assert out[0] == 'ok', what + ": failed (%s) where the model succeeds" % (out[1].__name__ if out[0] == 'err' else '')
        assert out[1] == exp[1] and (exp[1] is not None or out[1] is None), what + ": result differs from the model"
    elif kind == 'done':
        assert out[0] == 'ok', what + ": failed (%s) where the model succeeds" % (out[1].__name__ if out[0] == 'err' else '')
    elif kind == 'parser_error':
        assert out[0] == 'err' and issubclass(out[1], ParserError), what + ": must fail with ParserError"


def list_op(n: int, e0: int, e1: int, e2: int, e3: int, i: int, v: int, use_dec: bool, di: int, mix: int = 0) -> None:
    """
    pre: 0 <= n <= 6 and -8 <= i <= 8 and 0 <= di < 11 and 0 <= mix <= 3
    post: True
    """
    hlib.enter(locals())
    hlib.assume(hlib.deep() or (n <= 4 and -6 <= i <= 6))
    op = hlib.PARAM["lop"]
    text, model = LIST_OPS[op]
    mix = hlib.concrete(mix, 0, 3)
    hlib.assume(mix == 0 or op in ('index_of', 'remove', 'in', 'not_in'))
    if mix:
        # equal numbers of different classes are the same element: the language's literals (its own Decimal class),
        # results of arithmetic (plain decimal.Decimal) and host ints / bools
        import decimal as _dm
        hlib.assume(n <= 3 and not use_dec and i == 0 and di == 0)
        e0, e1, v = (hlib.concrete(x, 0, 2) for x in (e0, e1, v))
        e2, e3 = e0, e1          # (the third element repeats the first)
        with hlib.native():
            if mix == 1:
                e0, e1, e2, e3 = (_dm.Decimal(x) for x in (e0, e1, e2, e3))
                v = Decimal(v)
            elif mix == 2:
                v = _dm.Decimal(v) + 0
            else:
                e0, e1, e2, e3 = (Decimal(x) for x in (e0, e1, e2, e3))
                v = (v == 1) if v in (0, 1) else v
    l = [e0, e1, e2, e3, e0, e1][:n]
    idx = DEC_IDX[di] if use_dec else i
    exp, after = model(list(l), idx, v)
    out = run_eval(text, {'l': l, 'i': idx, 'v': v}, 1000)
    _check(out, exp, l, after, text)
    hlib.done()


DICT_OPS = {
    "read": ("d[k]", lambda d, k, v: M.d_read(d, k)),
    "read_fn": ("__getitem__(d, k)", lambda d, k, v: M.d_read(d, k)),
    "get": ("get(d, k)", lambda d, k, v: M.d_get(d, k)),
    "get_default": ("get(d, k, v)", lambda d, k, v: M.d_get(d, k, v)),
    "write": ("d[k] = v", lambda d, k, v: M.d_write(d, k, v)),
    "del": ("del d[k]", lambda d, k, v: M.d_del(d, k)),
    "keys": ("keys(d)", lambda d, k, v: (('ok', list(d.keys())), dict(d))),
    "values": ("values(d)", lambda d, k, v: (('ok', list(d.values())), dict(d))),
    "len": ("len(d)", lambda d, k, v: (('ok', len(d)), dict(d))),
}
if isinstance(hlib.PARAM, dict) and "dop" in hlib.PARAM:
    prewarm(DICT_OPS[hlib.PARAM["dop"]][0])


def _dict(b0, b1, b2, v0, v1, v2):
    d = {}
    if b0:
        d['1'] = v0
    if b1:
        d['a'] = v1
    if b2:
        d['None'] = v2
    return d


def dict_op(b0: bool, b1: bool, b2: bool, v0: int, v1: int, v2: int, ki: int, v: int, none_at: int = 0) -> None:
    """
    pre: 0 <= ki < 15 and 0 <= none_at <= 5
    post: True
    """
    hlib.enter(locals())
    op = hlib.PARAM["dop"]
    text, model = DICT_OPS[op]
    # None, empty and false values are values like any other (stored, read back, distinguished from a missing key)
    none_at = hlib.concrete(none_at, 0, 5)
    if none_at == 1:
        v0 = None
    elif none_at == 2:
        v1 = None
    elif none_at == 3:
        v = None
    elif none_at == 4:
        v0, v1, v2 = [], '', False
    elif none_at == 5:
        v2 = None
    d = _dict(b0, b1, b2, v0, v1, v2)
    k = KEYS[ki]
    exp, after = model(dict(d), k, v)
    out = run_eval(text, {'d': d, 'k': k, 'v': v}, 1000)
    _check(out, exp, d, after, text)
    hlib.done()


# key round trip: written through one path, observed through the others
WRITE = ["d[k] = v", "d = {k: v}", "d[k] = zero\nd[k] += v", "d = {k: zero}\nd[k] += v", "d = {'x': zero, k: v}"]
READ = ["d[k]", "get(d, k)", "__getitem__(d, k)", "get(d, k, zero - one)"]
if isinstance(hlib.PARAM, dict) and "text" in hlib.PARAM:
    prewarm(hlib.PARAM["text"])
if isinstance(hlib.PARAM, dict) and "f" in hlib.PARAM:
    prewarm(["rows = [one, one] | map(k => [])\nrows[zero].push(a)\nrows[one]", "f = k => [one, one]\nf(one).push(a)\nf(one)",
             "g = k => {'t': []}\ng(one)['t'].push(a)\ng(one)['t']", "[one, one] | map(v => [zero].pop()) | len",
             "h = k => []\nh(one) | push(a)\nlen(h(one))"][hlib.PARAM["f"]])
if isinstance(hlib.PARAM, dict) and "w" in hlib.PARAM:
    prewarm(*[WRITE[hlib.PARAM["w"]] + "\n" + r for r in READ])
    prewarm(WRITE[hlib.PARAM["w"]] + "\ndel d[k]\nlen(d)", WRITE[hlib.PARAM["w"]] + "\nkeys(d)")


def key_roundtrip(ki: int, kint: int, use_int: bool, v: int, v_none: bool = False) -> None:
    """
    pre: 0 <= ki < 15 and -2 <= kint <= 11
    post: True
    """
    hlib.enter(locals())
    w, r = hlib.PARAM["w"], hlib.PARAM["r"]
    if v_none:
        hlib.assume(w in (0, 1, 4))          # (None cannot be the operand of +=)
        v = None
    k = kint if use_int else KEYS[ki]
    names = {'d': {}, 'k': k, 'v': v, 'zero': 0, 'one': 1}
    if r < 4:
        out = run_eval(WRITE[w] + "\n" + READ[r], names, 1000)
        assert out[0] == 'ok' and out[1] == v, "d[k] = v (path %d) is not followed by %s == v" % (w, READ[r])
    elif r == 4:
        out = run_eval(WRITE[w] + "\nkeys(d)", names, 1000)
        assert out[0] == 'ok' and M.key(k) in out[1], "written key is not among keys(d) in normalised form"
    else:
        out = run_eval(WRITE[w] + "\ndel d[k]\nlen(d)", names, 1000)
        assert out[0] == 'ok' and out[1] == (1 if w == 4 and M.key(k) != 'x' else 0), "del d[k] did not remove the entry written as d[k]"
    hlib.done()


def two_keys(ki: int, kj: int, v1: int, v2: int) -> None:
    """
    pre: 0 <= ki < 15 and 0 <= kj < 15
    post: True
    """
    # short sequences with two (possibly equal-looking) keys on one dict: 1 / Decimal('1') / Decimal('1.0') / True are
    # equal as Python values but are distinct keys unless their string forms coincide
    hlib.enter(locals())
    hlib.reset_caches()
    k1, k2 = KEYS[hlib.concrete(ki, 0, 14)], KEYS[hlib.concrete(kj, 0, 14)]
    text = hlib.PARAM["text"]
    d = {}
    names = {'d': d, 'k1': k1, 'k2': k2, 'v1': v1, 'v2': v2}
    out = run_eval(text, names, 1000)
    # the model, line by line
    m = {}
    exp = ('ok', None)
    for line in text.split("\n"):
        if line == "d[k1] = v1":
            m = M.d_write(m, k1, v1)[1]
        elif line == "d[k2] = v2":
            m = M.d_write(m, k2, v2)[1]
        elif line == "del d[k2]":
            m = M.d_del(m, k2)[1]
        elif line == "d[k2]":
            exp = M.d_read(m, k2)[0]
        elif line == "get(d, k2)":
            exp = M.d_get(m, k2)[0]
        elif line == "len(d)":
            exp = ('ok', len(m))
    assert d == m or exp[0] != 'ok', "two-key sequence: dict contents differ from the model (keys are normalised by their string form only)"
    if exp[0] == 'ok':
        assert out[0] == 'ok' and out[1] == exp[1], "two-key sequence: result differs from the model"
    else:
        assert out[0] == 'err' and issubclass(out[1], ParserError), "two-key sequence: reading a key that was never written must fail"
    hlib.done()


FRESH = [
    ("rows = [one, one] | map(k => [])\nrows[zero].push(a)\nrows[one]", []),
    ("f = k => [one, one]\nf(one).push(a)\nf(one)", [1, 1]),
    ("g = k => {'t': []}\ng(one)['t'].push(a)\ng(one)['t']", []),
    ("[one, one] | map(v => [zero].pop()) | len", 2),
    ("h = k => []\nh(one) | push(a)\nlen(h(one))", 0),
]


def literal_fresh(a: int) -> None:
    """
    pre: True
    post: True
    """
    # a list / dict literal denotes a NEW container every time it is evaluated (no state shared between evaluations)
    hlib.enter(locals())
    text, want = FRESH[hlib.PARAM["f"]]
    out = run_eval(text, {'a': a, 'zero': 0, 'one': 1}, 1000)
    assert out[0] == 'ok' and out[1] == want, "a container literal evaluated again still holds what an earlier evaluation's result was given"
    hlib.done()


def list_values_decimal(vi: int, n: int) -> None:
    """
    pre: 0 <= vi < 11 and 0 <= n <= 4
    post: True
    """
    # operations that take a VALUE (not a position): decimals are compared as they are, never truncated
    hlib.enter(locals())
    op = hlib.PARAM["vop"]
    vi, n = hlib.concrete(vi, 0, 10), hlib.concrete(n, 0, 4)
    with hlib.native():
        base = [Decimal('2'), Decimal('2.5'), Decimal('0'), Decimal('-1.5')][:n] + [7]
        v = DEC_IDX[vi]
        l = list(base)
        text = {"remove": "remove(l, v)", "index_of": "index_of(l, v)", "in": "v in l"}[op]
        out = run_eval(text, {'l': l, 'v': v}, 100, parser=PARSER_PLAIN)
        if op == "remove":
            exp, after = M.l_remove(list(base), v)
        elif op == "index_of":
            exp, after = M.l_index_of(list(base), v)
        else:
            exp, after = ('ok', any(x == v for x in base)), list(base)
        ok_after = (l == after)
        ok_val = (exp[0] != 'ok' or op == "remove" or (out[0] == 'ok' and out[1] == exp[1]))
    assert ok_after, "%s with the value %s: list afterwards differs from the model (a value is not a position: no truncation)" % (text, v)
    assert ok_val, "%s with the value %s: result differs from the model" % (text, v)
    hlib.done()


# subscripts written as number LITERALS address the same keys / positions as the same numbers held in variables
LITKEYS = [
    ("d = {}\nd[1.5] = v\n[keys(d), d[1.5], get(d, 1.5), get(d, k15)]", lambda v: [['1.5'], v, v, v]),
    ("d = {2.5: v}\n[d[2.5], d[k25]]", lambda v: [v, v]),
    ("d = {}\nd[2.0] = v\nd[2] = 7\nkeys(d)", lambda v: ['2.0', '2']),
    ("d = {}\nd[1.2] = v\nd[1.7] = 7\nlen(d)", lambda v: 2),
    ("d = {'1': 5}\nd[1.0] = v\ndel d[1.0]\nkeys(d)", lambda v: ['1']),
    ("d = {}\nd[0.5] += v", None),
    ("l = [10, 20, 30]\n[l[1.7], l[-1.5], l[0.0]]", lambda v: [20, 30, 10]),
    ("l = [10, 20, 30]\nl[1.9] = v\ndel l[0.2]\nl", lambda v: [v, 30]),
    ("d = {}\nd[-0] = v\nd[0] = 7\n[keys(d), d[-0]]", lambda v: [['0'], 7]),
]


def literal_keys(v: int) -> None:
    """
    pre: -3 <= v <= 3
    post: True
    """
    hlib.enter(locals())
    text, expf = LITKEYS[hlib.PARAM["lk"]]
    v = hlib.concrete(v, -3, 3)
    with hlib.native():
        out = run_eval(text, {'v': v, 'k15': Decimal('1.5'), 'k25': Decimal('2.5')}, 1000, parser=PARSER_PLAIN)
    if expf is None:
        assert out[0] == 'err' and issubclass(out[1], ParserError), "compound write through a literal subscript to a missing key must fail with ParserError"
    else:
        assert out[0] == 'ok' and out[1] == expf(v), "%r gives %r, the model gives %r" % (text, out[1] if out[0] == 'ok' else out[1:], expf(v))
    hlib.done()
