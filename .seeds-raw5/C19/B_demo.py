import sys, os; sys.path.insert(0, os.getcwd())

from collections import Counter

import smartquery
from smartquery import SqParser

assert smartquery.__file__.startswith(os.getcwd()), smartquery.__file__

parser = SqParser()


def check(lst):
    before = list(lst)
    names = {'l': lst}
    for expr in ('shuffle(l)', 'l | shuffle', 'l.shuffle()'):
        res = parser.eval(expr, names=names)
        assert isinstance(res, list), (expr, type(res))
        assert res is not lst, expr
        assert lst == before, (expr, 'argument was modified')
        assert len(res) == len(before), (expr, len(before), len(res))
        assert Counter(map(repr, res)) == Counter(map(repr, before)), (expr, 'not a permutation')


# everyday sizes
check([])
check([1])
check([3, 1, 2, 2, 'x', None])
check(list(range(500)))

# host-supplied lists around the script-side array size limit (10000 elements)
check(list(range(9999)))
check(list(range(10000)))
check(list(range(10001)))
check([i % 7 for i in range(25000)])

print('ok')
