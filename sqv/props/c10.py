from sqv.driver import Obligation


def plan(ctx):
    T = 40 if ctx["tier"] == "quick" else 240
    from sqv.harness import c10 as h
    obs = [
        Obligation("sd.get", "xh", "c10", "sd_get", timeout=T, bounds="1..3 scopes over two names + one unbound name, presence of each binding symbolic",
                   desc="ScopedDict.__getitem__ returns the innermost binding or raises KeyError"),
        Obligation("sd.set", "xh", "c10", "sd_set", timeout=T, bounds="1..3 scopes over two names + one unbound name, presence of each binding symbolic",
                   desc="ScopedDict.__setitem__ changes only the top scope"),
        Obligation("sd.scope", "xh", "c10", "sd_scope", timeout=T, bounds="two names, presence symbolic; nesting <= 2; body raises or not",
                   desc="make_scope pops on normal exit and when the body raises; inner bindings do not leak"),
        Obligation("lambda.call_nothing_bound", "xh", "c10", "lambda_call_nothing_bound", timeout=T, bounds="0 or 1 declared parameters, no argument passed; host binding present or not; body raises or not; called at top level or inside another scope",
                   desc="a lambda call that binds no parameter still has a scope of its own: its assignments vanish, host and caller bindings untouched"),
        Obligation("lambda.call", "xh", "c10", "lambda_call", timeout=T, bounds="re-entrancy depth <= 2; each activation may raise",
                   desc="real LambdaOp closure with a body that rebinds its parameter, makes a local, re-enters, raises: stack depth "
                        "and host/builtin scopes restored, positional binding"),
    ]
    for i, text in enumerate(h.TEMPLATES):
        obs.append(Obligation(f"api.t{i}", "xh", "c10", "api_scope", param={"t": i}, timeout=T,
                              bounds="host binding present or not (symbolic), values unbounded ints",
                              desc=f"SqParser.eval({text!r})"))
    for lvl in (1, 2):
        obs.append(Obligation(f"sd.get.none_at_{lvl}", "xh", "c10", "sd_get", param={"none_at": lvl}, timeout=T,
                              bounds="as sd.get, with the bindings of one scope level having the value None",
                              desc="a binding whose value is None still shadows outer bindings of the same name"))
    obs.append(Obligation("api.no_names_history", "xh", "c10", "no_names_history", timeout=T, bounds="two histories (assignment to a builtin name / to a fresh name), host int symbolic",
                          desc="assignments made by eval() WITHOUT a names mapping do not survive into later evals on the same parser"))
    for i, text in enumerate(["len(l)", "l | len", "[1] | map(v => len(l)) | sum"]):
        obs.append(Obligation(f"api.two_evals.t{i}", "xh", "c10", "two_evals", param={"text": text}, timeout=T,
                              bounds="two evals of the same source on one parser (shared tree), shadowing host binding in the first or the second (symbolic)",
                              desc=f"eval({text!r}) twice: the host binding of `len` overrides the builtin in whichever call supplies it"))
    return {
        "obligations": obs,
        "explanation": "CrossHair (z3) symbolic execution of the real ScopedDict (arbitrary small scope stacks with symbolic string "
                       "keys), of the real LambdaOp closure with a re-entrant/raising body, and of scoping templates through SqParser.eval.",
        "functions": ["smartquery.scoped_dict.ScopedDict.*", "smartquery.ast_ops.LambdaOp.eval (closure)", "smartquery.sq_parser.SqParser.eval"],
        "files": ["smartquery/scoped_dict.py", "smartquery/ast_ops.py", "smartquery/sq_parser.py", "smartquery/functions.py"],
        "bounds": "<= 3 scopes x 2 names (presence symbolic); re-entrancy <= 2",
        "outside": "deeper stacks: the lookup loop is uniform in depth (not proved beyond 3)",
        "stubs": ["lambda body stand-in"],
        "assumptions": ["CrossHair's model of dict/str"],
        "trusted": ["CrossHair 0.0.110", "z3"],
    }
