import sys, os; sys.path.insert(0, os.getcwd())

import smartquery
from smartquery import SqParser

assert smartquery.__file__.startswith(os.getcwd()), smartquery.__file__

# A host that keeps parsed ASTs between calls (the documented parse_cache argument) and runs the
# same script for two different sessions, each with its own names dict.
parser = SqParser(parse_cache={})

script = '\n'.join([
    'basket = {"items": [1, 2], "total": 0}',   # x = e: must store an independent copy each time
    'push(basket["items"], 3)',                 # mutate the stored value
    'basket["total"] += 6',
])

session_1 = {}
parser.eval(script, names=session_1)
assert session_1['basket'] == {'items': [1, 2, 3], 'total': 6}, session_1

session_2 = {}
parser.eval(script, names=session_2)

# the value stored by the assignment in session 2 must not share anything with session 1 ...
assert session_2['basket'] is not session_1['basket'], 'both sessions hold the very same object'
assert session_2['basket']['items'] is not session_1['basket']['items']

# ... so the mutations made in session 1 are not visible through it, and vice versa
assert session_2['basket'] == {'items': [1, 2, 3], 'total': 6}, session_2
assert session_1['basket'] == {'items': [1, 2, 3], 'total': 6}, session_1

# a host-side mutation of what session 1 got is not visible through session 2's variable either
session_1['basket']['items'].append('host')
assert parser.eval('basket["items"]', names=session_2) == [1, 2, 3]

print('ok')
