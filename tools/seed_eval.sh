#!/bin/bash
# tools/seed_eval.sh <PROP> <A|B> [CHECKS...]: validate a sub-agent's seeded change in a scratch worktree
# (tests pass, demo fails with / passes without), run checks on it, store under /verif/seeded/<PROP>-<X>/
set -u
P=$1; X=$2; shift 2
CHECKS=${@:-$P}
SRC=${SEED_ROOT:-/tmp/wt-out}/$P
LBL=${SEED_LABEL:-$X}
WT=/tmp/sv/$P-$X-$$
rm -rf $WT; mkdir -p /tmp/sv
git -C /repo worktree add --detach $WT HEAD -q || exit 2
cd $WT
base_demo=$(/venv/bin/python $SRC/${X}_demo.py >/dev/null 2>&1; echo $?)
if ! git apply $SRC/$X.diff; then echo "PATCH DOES NOT APPLY"; git -C /repo worktree remove --force $WT; exit 2; fi
tests=$(/venv/bin/python -m pytest -q -p no:cacheprovider 2>&1 | tail -1)
mut_demo=$(/venv/bin/python $SRC/${X}_demo.py >/dev/null 2>&1; echo $?)
echo "seed $P-$LBL: demo(unchanged)=$base_demo demo(changed)=$mut_demo tests: $tests"
git checkout -q -- smartquery/gen 2>/dev/null
caught=""
for c in $CHECKS; do
  out=$(SQV_REPO=$WT /verif/check $c --no-evidence 2>/dev/null)
  rc=$?
  echo "$out" | grep -E "^C[0-9]+ tier|VIOLATION|INCONCLUSIVE" | head -8
  echo "$out" | grep -A1 VIOLATION | grep outcome | head -3
  [ $rc -eq 1 ] && caught="$caught $c"
done
echo "caught by:${caught:- NONE}"
D=/verif/seeded/$P-$LBL
mkdir -p $D
cp $SRC/$X.diff $D/patch.diff; cp $SRC/${X}_demo.py $D/demo.py
python3 - <<PY
import json
m=json.load(open("$SRC/${X}_meta.json"))
m.update({"demo_unchanged_exit": $base_demo, "demo_changed_exit": $mut_demo, "tests_with_change": "$tests",
          "ran": "git worktree of /repo HEAD; git apply patch.diff; pytest; demo; SQV_REPO=<worktree> ./check <id>",
          "checks_run": "$CHECKS".split(), "caught_by": "$caught".split()})
json.dump(m, open("$D/meta.json","w"), indent=1)
PY
cd /; git -C /repo worktree remove --force $WT
