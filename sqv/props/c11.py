from sqv.driver import Obligation


def plan(ctx):
    quick = ctx["tier"] == "quick"
    T = 90 if quick else 400
    from sqv.harness import c11 as h
    obs = []
    texts = range(len(h.TEXTS))
    for call in ('parse', 'eval', 'list_names'):
        for ti in texts:
            if ti in h.HISTORY_ONLY:
                continue
            if quick and call != 'parse' and ti % 2 == (ctx["seed"] % 2):
                continue
            obs.append(Obligation(f"havoc.{call}.t{ti}", "xh", "c11", "havoc_call", param={"call": call, "t": ti}, timeout=T,
                                  bounds="lexer position >= 0, line >= 1, bracket depth any int (unbounded, symbolic); leftover tree / input / parser stacks present or not",
                                  desc=f"{call}({h.TEXTS[ti]!r}) from an arbitrary parser state == the same call on a fresh parser (result or exception class+message)"))
    for t1 in texts:
        obs.append(Obligation(f"history.after.t{t1}", "xh", "c11", "history_pair", param={"t1": t1, "quick": quick}, timeout=T * 2,
                              bounds="first call: 5 kinds (parse, eval, ops-limited eval, list_names, abandoned list_names) on this text; second call: "
                                     + ("17 selected (call, text) pairs" if quick else "all 3 x 29 (call, text) pairs")
                                     + " (finite domain; the solver only enumerates indices, bodies run natively)",
                              desc=f"after each kind of call on {h.TEXTS[t1]!r}, the next call equals a fresh parser's; post-state lies in the havoc domain; process-global state (decimal context) unchanged"))
    obs.append(Obligation("history.lambda_after_failed_define", "xh", "c11", "lambda_after_failed_define", param={"t1": 0, "quick": True}, timeout=T * 2,
                          bounds="defining eval fails in 3 ways (undefined name, runtime error, ops limit); the lambda is then called 1..40 times for another names mapping and once for its own",
                          desc="a lambda stored by an eval that later failed resolves its free names in, and is charged to, the eval that calls it"))
    obs.append(Obligation("history.persisted_names", "xh", "c11", "persisted_names", timeout=T * 2,
                          bounds="6 three-step scripts (define a lambda / call it and mutate what it returned / call it again) on one names mapping kept by the host; with / without a parse cache; middle step on the same mapping or a copy",
                          desc="what a lambda returns does not depend on what earlier evaluations did to its earlier results"))
    return {
        "obligations": obs,
        "explanation": "CrossHair (z3): the scalar state of the real SqParser/PLY objects is havoc'ed with unbounded symbolic ints (and "
                       "leftover tree/input/stacks), then ONE real parse/eval/list_names call on a concrete text is compared with a fresh "
                       "parser. Real two-call histories (every failure kind, abandoned generators, different names mappings) validate the "
                       "havoc domain and cover state the havoc cannot name.",
        "functions": ["smartquery.sq_parser.SqParser.parse/eval/list_names", "smartquery.lexer.t_*", "smartquery.rules.p_*", "ply.lex.Lexer.token/input", "ply.yacc.LRParser.parseopt_notrack"],
        "files": ["smartquery/sq_parser.py", "smartquery/lexer.py", "smartquery/rules.py", "smartquery/ply/lex.py", "smartquery/ply/yacc.py"],
        "bounds": "29 concrete texts (4 of them history-only); havoc'ed ints unbounded; histories of length 2 (longer histories: by the havoc step)",
        "outside": "state on objects the harness does not know (new attributes) is only covered by the length-2 histories; lambdas captured across calls: C01 O6",
        "stubs": ["number formatting placeholder"],
        "assumptions": ["the listed fields are all the mutable state a call reads (checked against real histories of length 2)"],
        "trusted": ["CrossHair 0.0.110", "z3"],
    }
