import sys, os; sys.path.insert(0, os.getcwd())

import smartquery
assert smartquery.__file__.startswith(os.getcwd()), smartquery.__file__

from smartquery import SqParser

p = SqParser()


def run(lines, names):
    res = None
    for line in lines:
        res = p.eval(line, names=names)
    return res


# 1. a value produced by a compound write is found by index_of like any other
names = {}
run(['a = [1, 2, 3]', 'a[0] += 4'], names)
model = [5, 2, 3]
assert names['a'] == model, names['a']
assert run(['a[0] == 5'], names) is True
assert run(['5 in a'], names) is True
got = run(['a.index_of(5)'], names)
assert got == model.index(5), f'index_of(5) on {names["a"]} gave {got!r}, model says {model.index(5)}'

# 2. index_of agrees with `in`, read and remove on a computed value
names = {}
run(['a = []', 'a.push(1 + 1)', 'a.push(7)'], names)
model = [2, 7]
assert names['a'] == model
got = run(['a.index_of(2)'], names)
assert got == model.index(2), f'index_of(2) on {names["a"]} gave {got!r}, model says 0'

# 3. a list handed in by the host (plain ints) is searched with a literal
names = {'a': [10, 20, 30]}
got = run(['a.index_of(20)'], names)
assert got == 1, f'index_of(20) on host list gave {got!r}, model says 1'

# 4. a[a.index_of(v)] == v whenever v in a
names = {'a': [4, 5, 6]}
assert run(['a[a.index_of(6)] == 6'], names) is True

print('ok')
