import sys, os; sys.path.insert(0, os.getcwd())
from decimal import Decimal

import smartquery
from smartquery import SqParser

assert smartquery.__file__.startswith(os.getcwd()), smartquery.__file__

PREC = 28


def digits(v):
    assert not isinstance(v, float)
    return len(Decimal(v).as_tuple().digits)


parser = SqParser()

# ordinary literal arithmetic
assert parser.eval('5 * 5 + 5 / 5') == 26
assert parser.eval('2 ** 10') == 1024
assert parser.eval('True * 3') == 3

# True / False are numeric operands too (Python bools): their products and powers are computed in
# 28-digit Decimal arithmetic like everything else
r = parser.eval('(True + True) * (True + True)')
assert r == 4
assert isinstance(r, Decimal), ('* must compute in Decimal arithmetic', type(r))

r = parser.eval('(True + True) ** (True + True + True)')
assert r == 8
assert isinstance(r, Decimal), ('** must compute in Decimal arithmetic', type(r))

# 2 ** 2 ** 2 ** 2 ** 2 == 2 ** 65536: 28 significant digits (2.003529930406846464979072351E+19728) or an
# arithmetic error, never a 19729-digit number
try:
    r = parser.eval(
        '(True + True) ** (True + True) ** (True + True) ** (True + True) ** (True + True)', max_ops_evaluated=1000)
except ArithmeticError:
    pass
else:
    assert isinstance(r, Decimal), type(r)
    assert digits(r) <= PREC, digits(r)

# the same through the parse cache and a statement that stores the result for the host
cache = {}
cached = SqParser(parse_cache=cache)
names = {}
cached.eval('x = (True + True + True) ** ((True + True) ** (True + True + True + True + True + True))', names=names)
assert isinstance(names['x'], Decimal), type(names['x'])
assert digits(names['x']) <= PREC, digits(names['x'])     # 3 ** 64 has 31 digits

print('ok')
