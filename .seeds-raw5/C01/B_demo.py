import sys, os; sys.path.insert(0, os.getcwd())

import smartquery
from smartquery import SqParser
from smartquery.exceptions import OpsExecutionLimitExceededError

assert smartquery.__file__.startswith(os.getcwd()), smartquery.__file__

parser = SqParser()
N = 20
words = ['w%d' % i for i in range(30)]


def run(program, names, n):
    try:
        return parser.eval(program, names=names, max_ops_evaluated=n)
    except OpsExecutionLimitExceededError:
        return 'LIMIT'


# 1. map/filter driven by a builtin (not a lambda): the whole program is 4 operations
#    (CodeOp, CallOp, NameOp l, NameOp upper) however long the list is, so it must succeed with N=20
res = run('l | map(upper)', {'l': list(words)}, N)
print('map(upper) over 30 items, N=20 ->', res if res == 'LIMIT' else 'ok')
assert res == [w.upper() for w in words], 'spurious ops-limit error: the program needs only 4 operations'

res = run('l | filter(len)', {'l': list(words)}, N)
assert res == words, 'spurious ops-limit error in filter(len)'

# monotone in N: what succeeds with 5 must succeed identically with every larger budget
for n in (5, 6, 10, 20, 31, 35, 100):
    assert run('l | map(upper)', {'l': list(words)}, n) == [w.upper() for w in words], n

# 2. the limit error is raised AT the N-th operation, not earlier: the 4 ops of the frame plus 2 ops per
#    item (CallOp tick, NameOp v) -> the 20th op is the NameOp of the 8th item, after 7 ticks happened
ticks = []
res = run('l | map(v => tick(v))', {'l': list(range(30)), 'tick': lambda v: ticks.append(v)}, N)
print('map(v => tick(v)) over 30 items, N=20 ->', res, '| ticks:', len(ticks))
assert res == 'LIMIT'
assert ticks == list(range(7)), 'limit error not raised at the N-th operation: %d ticks' % len(ticks)

print('OK')
