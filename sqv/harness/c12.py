"""C12 harnesses: assignment stores independent copies."""
import copy as _realcopy

from sqv import hlib
from sqv.nodes import build, mkstate, Stub
from smartquery import ast_ops, functions
from smartquery.functions import FUNCTIONS
from smartquery.exceptions import ParserError
from sqv.api import run_eval, prewarm


class Wrapped:
    def __init__(self, inner):
        self.inner = inner


class _CopyStub:
    """stand-in for the copy module inside ast_ops / functions: deepcopy tags, so the *routing* is visible"""
    copy = staticmethod(_realcopy.copy)
    calls = []

    @staticmethod
    def deepcopy(x, memo=None):
        _CopyStub.calls.append(x)
        return Wrapped(x)


class Rec:
    """current value of a name / slot: records what an in-place operator is applied with"""

    def __init__(self):
        self.got = []

    def _i(self, other):
        self.got.append(other)
        return self
    __iadd__ = __isub__ = __imul__ = __itruediv__ = _i


class Sentinel:
    pass


def routing_node(which: bool, key_is_str: bool, ki: int) -> None:
    """
    pre: 0 <= ki <= 1
    post: True
    """
    hlib.enter(locals())
    kind, op = hlib.PARAM["kind"], hlib.PARAM["op"]
    saved = ast_ops.copy
    ast_ops.copy = _CopyStub
    _CopyStub.calls = []
    try:
        s = Sentinel()
        log = []
        node, stubs = build(kind, op, log, [s, s, s, s], 1, -1)
        rec = Rec()
        host = {'x': rec}
        st = mkstate(0, 1000, host=host)
        try:
            node.eval(st)
        except ParserError:
            # a compound operator may refuse non-numeric operands outright: then nothing may have been stored
            assert host['x'] is rec and rec.got == [], "operator refused its operands but changed the variable"
            hlib.done()
            return
        if kind == 'AssignOp':
            v = host['x']
            assert isinstance(v, Wrapped) and v.inner is s, "name assignment stores the evaluated object itself, not a deep copy of it"
        else:
            assert host['x'] is rec and len(rec.got) == 1, "compound assignment did not apply the operator once"
            v = rec.got[0]
            assert isinstance(v, Wrapped) and v.inner is s, "compound assignment combines with the evaluated object itself, not a deep copy"
    finally:
        ast_ops.copy = saved
    hlib.done()


def routing_setitem(key_is_str: bool, ki: int, as_dict: bool) -> None:
    """
    pre: 0 <= ki <= 1
    post: True
    """
    hlib.enter(locals())
    name, op = hlib.PARAM["fn"], hlib.PARAM.get("op")
    saved = functions.copy
    functions.copy = _CopyStub
    try:
        s = Sentinel()
        rec = Rec()
        if as_dict:
            cont = {'0': rec, '1': rec}
            key = str(ki) if key_is_str else ki
        else:
            cont = [rec, rec]
            key = ki
        if name == '__setitem__':
            FUNCTIONS[name](cont, key, s)
            v = cont[str(ki) if as_dict else ki]
            assert isinstance(v, Wrapped) and v.inner is s, "index assignment stores the object itself, not a deep copy"
        else:
            try:
                FUNCTIONS[name](cont, key, op, s)
            except ParserError:
                assert rec.got == [] and cont[str(ki) if as_dict else ki] is rec, "operator refused its operands but changed the slot"
                hlib.done()
                return
            assert len(rec.got) == 1
            v = rec.got[0]
            assert isinstance(v, Wrapped) and v.inner is s, "compound index assignment combines with the object itself, not a deep copy"
    finally:
        functions.copy = saved
    hlib.done()


def routing_rhs(nch: int, r0: bool) -> None:
    """
    pre: 1 <= nch <= 2
    post: True
    """
    # name assignment / compound assignment whose right-hand side is a REAL node of each kind (list and dict
    # literals, calls, conditionals, ...): whatever that node evaluates to, its tagged deep copy is what is stored
    hlib.enter(locals())
    kind, op, target = hlib.PARAM["kind"], hlib.PARAM["op"], hlib.PARAM["target"]
    from sqv.nodes import Tok as NT
    saved = ast_ops.copy
    ast_ops.copy = _CopyStub
    _CopyStub.calls = []
    try:
        log = []
        s1, s2 = [Sentinel()], [Sentinel()]
        rhs, stubs = build(kind, op, log, [s1 if r0 else NT(True), s2, s1, s2], nch, -1, value=s1)
        got = []
        real_eval = rhs.eval

        def capture(state):
            v = real_eval(state)
            got.append(v)
            return v
        rhs.eval = capture                      # instance attribute: type(rhs) stays the real node class
        rec = Rec()
        host = {'x': rec}
        if kind == 'NameOp':
            host = {'x': s1}
        if kind == 'CallOp':
            host['x'] = lambda *a: list(a)
            host['y'] = rec
        st = mkstate(0, 1000, host=host, functions={'list': lambda *a: [*a], 'dict': dict})
        tname = 'y' if kind == 'CallOp' else 'x'
        node = ast_ops.AssignOp(tname, rhs) if target == 'assign' else ast_ops.ShortOp(tname, '+=', rhs)
        try:
            node.eval(st)
        except Exception:
            hlib.done()
            return
        if not got:
            hlib.done()
            return
        if target == 'assign':
            v = st.names.scopes[-1][tname]
            assert isinstance(v, Wrapped) and v.inner is got[0], \
                "name assignment with a %s right-hand side stores the evaluated object itself, not a deep copy" % kind
        elif tname in host and host[tname] is rec:
            assert len(rec.got) == 1 and isinstance(rec.got[0], Wrapped) and rec.got[0].inner is got[0], \
                "compound assignment with a %s right-hand side combines with the evaluated object itself" % kind
    finally:
        ast_ops.copy = saved
    hlib.done()


# effect templates: (text, which host objects must be unchanged afterwards)
EFFECT = [
    "x = a\nx[i].push(w)\nx[i][j] = w\nx | push([w])",
    "c[k] = a\nc[k][i].push(w)\nc[k][i][j] = w",
    "x = [[w]]\nx += a\nx[1].push(w)\nx[2][j] = w",
    "c[k] = [[w]]\nc[k] += a\nc[k][1].push(w)",
    "x = d\nx['p'].push(w)\nx['q'] = w",
    "e['n'] = d\ne['n']['p'].push(w)",
    "x = a\ny = x\ny[i].push(w)\ny[i][j] = w\nx == a",
    "x = a\nf = v => v\ny = f(x)\ny",
    "x = [a, a]\nx[0][i].push(w)\nx[1][i][j] = w",
    "x = {'p': a, 'q': d}\nx['p'][i].push(w)\nx['q']['p'].push(w)",
    "x = list(a, d)\nx[0][i].push(w)\nx[1]['p'].push(w)",
    "c[k] = [a, d]\nc[k][0][i].push(w)\nc[k][1]['q'] = w",
    "x = [w]\nx += [a]\nx[1][i].push(w)",
    "c[k] = [w]\nc[k] += [a, d]\nc[k][1][i].push(w)\nc[k][2]['p'].push(w)",
    "x = a if w == w else a\nx[i].push(w)",
    "x = a\ny = a\nx[i].push(w)\ny == a",
    "x = a\ny = a[i]\ny.push(w)\nx == a",
    "acc = [[w]]\nacc += [a]\nacc += [a]\nacc[1][i].push(w)\nacc[2] == a",
    "c[0] = a\nc[1] = a\nc[0][i].push(w)\nc[1] == a",
    "x = sess\nx['tags'][i].push(w)",
    "acc = [[w]]\nacc += [sess]\nacc[1]['tags'][i].push(w)",
    "c2[zero] = a\nc2[zero][i].push(w)",
    "c3[one] = a\nc3[one][i].push(w)",
    # EMPTY containers are values too: storing one stores a copy
    "c[k] = em\nc[k].push(w)\nx = em\nx.push(w)\nx",
    "e['n'] = ed\ne['n']['z'] = w\ny = ed\ny['z'] = w\ny",
    "c[k] = a2[0]\nc[k].push(w)\ne['m'] = a2[1]\ne['m']['z'] = w",
    "c[k] = [w]\nc[k] += em\nx = [em, ed]\nx[0].push(w)\nx[1]['z'] = w",
    "acc = [w]\nacc += [em]\nacc[1].push(w)\nc[k] = ed\nc[k]['z'] = w",
    # (28..) the value IS or CONTAINS the container it is stored into: a snapshot is stored (result must be True)
    "c[k] = c\nc.push(w)\nlen(c[k]) == 2",
    "e['self'] = e\ne['x'] = w\nlen(e['self']) == 0",
    "c[k] = [c]\nc.push(w)\nlen(c[k][0]) == 2",
    "c[k] = [w]\nc[k] += [c]\nc.push(w)\nlen(c[k][1]) == 2",
    "par['first'] = child\npar['z'] = w\n('z' in par['first']['parent']) == False",
    "x = [a]\nx[0] = x\nx.push(w)\nlen(x[0]) == 1",
    # (34..) re-binding a name that holds a host object leaves that object alone; so do the builtins behind index assignment
    "a = [[w]]\na.push(w)\nd = {'z': w}\nd['y'] = w\nlen(a)",
    "x = a\nx = d\nx['p'].push(w)\nx = [w]\nx.push(w)",
    "__setitem__(c, k, a)\nc[k][i].push(w)\nc | __setitem__(k, d)\nc[k]['p'].push(w)",
    "c[k] = [w]\n__setitem_with_op__(c, k, '+=', a)\nc[k][1].push(w)",
    "[zero] | map(v => __setitem__(e, 'm', a))\ne['m'][i].push(w)",
]
MUST_BE_TRUE = set(range(28, 34))
MAY_FAIL = (19, 20, 21, 22)          # a refusal (error, nothing stored) is as good as an independent copy
if isinstance(hlib.PARAM, dict) and "t" in hlib.PARAM:
    prewarm(EFFECT[hlib.PARAM["t"]])


def effect(v0: int, v1: int, v2: int, w: int, i: int, j: int, k: int, after: int) -> None:
    """
    pre: 0 <= i <= 1 and 0 <= j <= 0 and 0 <= k <= 1 and 0 <= after <= 2
    post: True
    """
    hlib.enter(locals())
    t = hlib.PARAM["t"]
    a = [[v0, v1], [v2]]
    d = {'p': [v0], 'q': v1}
    c = [0, 0]
    e = {}
    import threading
    sess = {'tags': a, 'lock': threading.Lock()}          # a host structure that copy.deepcopy cannot copy
    em, ed, a2 = [], {}, [[], {}]
    par = {'kids': []}
    child = {'parent': par}
    names = {'par': par, 'child': child, 'a': a, 'd': d, 'c': c, 'e': e, 'i': i, 'j': j, 'k': k, 'w': w, 'sess': sess, 'c2': [], 'c3': [0], 'zero': 0, 'one': 1,
             'em': em, 'ed': ed, 'a2': a2}
    out = run_eval(EFFECT[t], names, 1000)
    assert out[0] == 'ok' or t in MAY_FAIL, "template failed"
    if t in MUST_BE_TRUE:
        assert out[1] is True, "a value stored into a container it refers to is not a snapshot: later changes of the container show through it"
    assert em == [] and ed == {} and a2 == [[], {}], "an empty host container changed although only values stored from it were mutated"
    assert a == [[v0, v1], [v2]] and d == {'p': [v0], 'q': v1}, \
        "a host object changed although only variables assigned from it were mutated"
    if t == 6:
        assert out[1] is True, "mutating y changed x although y was assigned from x"
    if t in (15, 16, 17, 18):
        assert out[1] is True, "two values stored from the same source in one evaluation share structure (mutating one is visible through the other)"
    # now the host mutates its own objects: stored values must not see it
    stored = None
    if t in (0, 6):
        stored = ('x', _realcopy.deepcopy(names['x']))
    elif t == 4:
        stored = ('x', _realcopy.deepcopy(names['x']))
    if after == 1:
        a[i].append(w)
        d['p'].append(w)
    elif after == 2:
        a[i][0] = w + 1
        d['q'] = [w]
    if stored is not None:
        assert names[stored[0]] == stored[1], "a stored value changed when the host mutated the object it was assigned from"
    if t in (1, 3):
        before = _realcopy.deepcopy(c)
        a[i].append(w)
        assert c == before, "c[k] = a stored an alias of a"
    hlib.done()


def direct_mutation(v0: int, w: int, i: int) -> None:
    """
    pre: 0 <= i <= 1
    post: True
    """
    # sanity (non-vacuity of the value-semantics harness): a direct mutator IS visible to the host
    hlib.enter(locals())
    a = [[v0], [v0]]
    out = run_eval(hlib.PARAM["text"], {'a': a, 'i': i, 'w': w}, 1000)
    assert out[0] == 'ok' and a[i] == [v0, w] and a[1 - i] == [v0]
    hlib.done()


# the same statement evaluated again (a host with a parse cache re-uses the tree): every evaluation stores a fresh value
from sqv.harness import txt as _txt          # (its parsers are constructed at import, outside any explored path)
TWICE = ["x = [1, 2]", "x = {'k': [1]}", "x = [[1], 2]\ny = x", "c[0] = [1, 2]", "c[0] = {'k': []}", "x = []\nc[1] = {}",
         "x = [w]", "f = v => [1, 2]\nx = f(0)", "x = 'ab'\ny = [x, [x]]", "x = [1, 2] + [3]", "acc = [[1]]\nacc += [[2]]"]


def twice_cached(w: int, cached: bool, mutate: int) -> None:
    """
    pre: 0 <= mutate <= 2
    post: True
    """
    hlib.enter(locals())
    text = TWICE[hlib.PARAM["t"]]
    cached = True if cached else False
    mutate = hlib.concrete(mutate, 0, 2)
    with hlib.native():
        w0 = 0
        P = _txt.CACHING if cached else _txt.PARSER
        n1 = {'w': w0, 'c': [0, 0]}
        n2 = {'w': w0, 'c': [0, 0]}
        P.eval(text, n1)
        want = _realcopy.deepcopy({k: v for k, v in n1.items() if not callable(v)})          # what the first evaluation stored
        for key in ('x', 'y', 'acc'):
            v = n1.get(key)
            if isinstance(v, list) and mutate:
                v.append(99) if mutate == 1 else v.insert(0, [98])
                if v and isinstance(v[0], list):
                    v[0].append(97)
            elif isinstance(v, dict) and mutate:
                v['zz'] = 99
                for vv in v.values():
                    if isinstance(vv, list):
                        vv.append(96)
        if mutate:
            for slot in n1['c']:
                if isinstance(slot, list):
                    slot.append(95)
                elif isinstance(slot, dict):
                    slot['zz'] = 94
        P.eval(text, n2)
        got = {k: v for k, v in n2.items() if not callable(v)}
        shared = [k for k in got if isinstance(got[k], (list, dict)) and k != 'c' and got[k] is n1.get(k)]
    assert not shared, "%r evaluated twice: both evaluations stored the very same object in %s" % (text, shared)
    assert got == want, "%r evaluated a second time stores %r (the first evaluation stored %r): the first evaluation's value, mutated by the host since, was re-used" % (text, got, want)
    hlib.done()
