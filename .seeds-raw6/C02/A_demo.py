import sys, os; sys.path.insert(0, os.getcwd())

from decimal import Decimal

import smartquery
from smartquery import SqParser, ParserError

assert smartquery.__file__.startswith(os.getcwd()), smartquery.__file__

PLAIN_SCALARS = (type(None), bool, int, float, Decimal, str)


def is_plain(v, _depth=0):
    """None, booleans, numbers, strings and lists/tuples/dicts/slices of these
    (builtins of the language and lambdas it defined are callables and allowed too)."""
    if isinstance(v, PLAIN_SCALARS):
        return True
    if type(v) in (list, tuple):
        return all(is_plain(x, _depth + 1) for x in v)
    if type(v) is dict:
        return all(is_plain(k, _depth + 1) and is_plain(x, _depth + 1) for k, x in v.items())
    if type(v) is slice:
        return all(is_plain(x) for x in (v.start, v.stop, v.step))
    if callable(v) and type(v).__name__ in ('function', 'builtin_function_or_method', 'method_descriptor'):
        return True
    return False


parser = SqParser()


def run(expr, names):
    try:
        return parser.eval(expr, names=names, max_ops_evaluated=1000)
    except (ParserError, TypeError, ValueError, LookupError, AttributeError) as e:
        return None  # an error is fine, the program obtained nothing


# ordinary uses: identical on both trees as far as plain-ness is concerned
assert run('sum([1, 2, 3])', {}) == 6
assert run('sum(5)', {}) == 5
assert is_plain(run('sum(d)', {'d': {'a': 1, 'b': 2}}))

# a dict whose values cannot be added up: host binds only plain data
host = {'d': {'name': 'bob', 'city': 'paris'}}

res = run('sum(d)', host)
assert is_plain(res), f'program returned non-plain object: {type(res).__name__}: {res!r}'

# ... and the program can store it inside its own data, where it stays a live view
res = run('box = []; push(box, sum(d)); d["zip"] = "75000"; box', host)
assert is_plain(res), f'program stored non-plain object: {res!r}'

res = run('d | sum', {'d': {'k': [1, 2]}})
assert is_plain(res), f'program returned non-plain object: {type(res).__name__}: {res!r}'

print('ok')
