from sqv.driver import Obligation
from sqv import nodes


def plan(ctx):
    quick = ctx["tier"] == "quick"
    T = 60 if quick else 300
    from sqv.harness import c07 as h, c13
    from spec import refsem as R
    from smartquery.functions import FUNCTIONS
    obs, uncovered = [], []
    ops = nodes.ops_of(__import__('smartquery.ast_ops', fromlist=['BinOp']).BinOp)
    for op in ops:
        for ka in range(7):
            if op in ('*', '**', '/') and ka in (0, 1):
                continue        # symbolic numbers cannot meet Decimal arithmetic under CrossHair (covered with concrete Decimals, kind 'decimal')
            if quick and (ka + len(op) + ctx["seed"]) % 2 == 0 and op not in ('+', '*', 'in', 'and'):
                continue
            if op == '+' and ka == 2:
                for kb in range(7):
                    obs.append(Obligation(f"binop.+.str.{h.KN[kb]}", "xh", "c07", "binop_step", param={"op": op, "ka": ka, "kb": kb}, timeout=T,
                                          bounds="str (<= 1 char) + right operand of this kind (ints -2..11): string-on-the-left coercion",
                                          desc="str + x == str + str(x) for non-strings, plain concatenation for strings"))
                continue
            obs.append(Obligation(f"binop.{op}.{h.KN[ka]}", "xh", "c07", "binop_step", param={"op": op, "ka": ka}, timeout=T,
                                  bounds="left operand kind fixed, right kind symbolic over int/bool/str(<=2)/None/[int](<=2)/{str:int}/Decimal(pool of 5); "
                                         "ints, bools, strs symbolic (concrete numbers for * ** /)",
                                  desc=f"BinOp('{op}') with stub operands vs reference binop: value, result type, error class"))
    for op in ('-', 'not'):
        obs.append(Obligation(f"unary.{op}", "xh", "c07", "unary_step", param={"op": op}, timeout=T, bounds="operand kind symbolic over the 7 kinds",
                              desc=f"UnaryOp('{op}') vs reference"))
    for op in ('+', '-', '*', '/'):
        obs.append(Obligation(f"int_operands.{op}", "xh", "c07", "int_operands", param={"op": op}, timeout=T,
                              bounds="both operands from 10 Python ints / bools (what len, index_of, enumerate and hosts hand out); operator or compound-assignment form (finite domain, native)",
                              desc=f"real {op} / {op}= on Python ints vs the reference semantics: value, TYPE (int / float / Decimal) and error class"))
    obs.append(Obligation("builtin.pretty.numbers", "xh", "c07", "pretty_numbers", timeout=T,
                          bounds="24 Decimals (zeros and negative zeros of several scales, 4..9 digit integers, fractions, exponents), directly or through round(v, 2); default or custom separator (finite domain, native)",
                          desc="pretty on numbers: the sign apart, what follows cut into groups of three from the right (reference written from the documented examples)"))
    obs.append(Obligation("slice", "xh", "c07", "slice_step", timeout=T * 2, bounds="each bound absent / int -1..1 (stop -1..2) / Decimal from {0, 1, 2.5}; applied to a 4-element list",
                          desc="SliceOp builds slice(int-cast bounds), absent stays absent, 0 stays 0; slicing result equals Python's"))
    for name in sorted(FUNCTIONS):
        if name in R.NOT_MODELLED:
            continue
        if name not in R.REF:
            uncovered.append(f"builtin {name!r} has no reference implementation in spec/refsem.py")
            continue
        shapes = h.NUMERIC_CONCRETE.get(name) or (list(c13.SHAPES.get(name, [])) + h.MUT_SHAPES.get(name, []))
        shapes = [s for s in shapes if 'H' not in s]
        for sh in shapes:
            obs.append(Obligation(f"builtin.{name}.{sh or 'noargs'}", "xh", "c07", "builtin_equiv", param={"fn": name, "shape": sh}, timeout=T,
                                  bounds="lists 0..3 of symbolic ints (first in -3..3), nested list, dict, short strings, key/reverse flags",
                                  desc=f"FUNCTIONS[{name!r}] shape {sh!r} vs reference implementation: result, error class, arguments afterwards"))
    for nm in sorted(R.NOT_MODELLED):
        uncovered.append(f"builtin {nm!r} is outside the reference semantics (nondeterministic / regex / formatting): see C19, C05")
    for i, text in enumerate(h.TEMPLATES):
        obs.append(Obligation(f"template.t{i}", "xh", "c07", "template", param={"t": i}, timeout=T * 2, extra=({"keep_lru_cache": True} if i >= h.REAL_CACHES_FROM else None),
                              bounds="host ints a (-4..4), b, c symbolic, string s from 3 samples, host list length 0..3",
                              desc=f"SqParser.eval({text!r}) vs reference interpreter on the same tree: value, error class, names afterwards, ops charged"))
    if not quick:
        for k in range(8):
            obs.append(Obligation(f"search.programs.{k}", "xh", "progsearch", "search", param={"first": k}, timeout=900, search=True,
                                  bounds="TIME-BOXED SEARCH (not exhaustive): programs of 3 lines, expression depth <= 2, decoded from 12 symbolic codes; "
                                         "host ints a in -2..3, b, budget n symbolic",
                                  desc="symbolic programs over the real node classes: real eval vs reference interpreter (value, error class, names, ops charged, budget boundary)"))
    return {
        "obligations": obs, "uncovered": uncovered,
        "explanation": "CrossHair (z3): differential symbolic execution of the real evaluator against the reference semantics in "
                       "spec/refsem.py (written from the property text): per operator over all operand-kind pairs, per deterministic builtin "
                       "over argument shapes, and per template through SqParser.eval against a reference interpreter of the same tree.",
        "functions": ["smartquery.ast_ops.*.eval", "deterministic values of FUNCTIONS", "smartquery.sq_parser.SqParser.eval", "lowering actions in rules.py"],
        "files": ["smartquery/ast_ops.py", "smartquery/functions.py", "smartquery/scoped_dict.py", "smartquery/sq_parser.py", "smartquery/custom_types.py", "smartquery/utils.py"],
        "bounds": "symbolic arithmetic restricted to + - comparisons on ints; Decimal-valued operations on concrete pools; containers <= 3",
        "outside": "arbitrary nesting (structural induction); Decimal rounding (C08); pretty/rand/shuffle/match*",
        "stubs": ["stub child nodes"],
        "assumptions": ["spec/refsem.py is the reference (a disagreement on the unchanged tree is triaged: defect or wrong reference)"],
        "trusted": ["CrossHair 0.0.110", "z3", "spec/refsem.py", "spec/container_model.py"],
    }
