"""C15 harnesses (grammar actions): trailing commas, redundant parentheses and the three call spellings build
the same tree from the same children."""
from typing import List

from sqv import hlib
from sqv.pstub import run_action, run_prod, NoSuchProduction, load_productions
load_productions()
from smartquery import rules
from smartquery.ast_ops import ValueOp, NameOp, CallOp


def _kids(args):
    return [ValueOp(a) for a in args]


def trailing_comma_call(args: List[int], name: str, recv: int) -> None:
    """
    pre: 1 <= len(args) <= 4 and len(name) <= 2
    post: True
    """
    hlib.enter(locals())
    form = hlib.PARAM["form"]
    kids = _kids(args)
    r = ValueOp(recv)
    if form == 'call':
        a = run_prod('expression', ['NAME', 'LPAREN', 'arglist', 'RPAREN'], [name, '(', list(kids), ')'])
        b = run_prod('expression', ['NAME', 'LPAREN', 'arglist', 'COMMA', 'RPAREN'], [name, '(', list(kids), ',', ')'])
    elif form in ('DOT', 'PIPE'):
        s = '.' if form == 'DOT' else '|'
        a = run_prod('expression', ['expression', form, 'NAME', 'LPAREN', 'arglist', 'RPAREN'],
                       [r, s, name, '(', list(kids), ')'])
        b = run_prod('expression', ['expression', form, 'NAME', 'LPAREN', 'arglist', 'COMMA', 'RPAREN'],
                       [r, s, name, '(', list(kids), ',', ')'])
    elif form == 'list':
        a = run_prod('expression', ['LBRACKET', 'arglist', 'RBRACKET'], ['[', list(kids), ']'])
        b = run_prod('expression', ['LBRACKET', 'arglist', 'COMMA', 'RBRACKET'], ['[', list(kids), ',', ']'])
    else:
        items = [(k, k) for k in kids]
        a = run_prod('expression', ['LBRACE', 'dict_item', 'RBRACE'], ['{', list(items), '}'])
        b = run_prod('expression', ['LBRACE', 'dict_item', 'COMMA', 'RBRACE'], ['{', list(items), ',', '}'])
    assert a == b, "a trailing comma changes the tree (%s)" % form
    if form in ('DOT', 'PIPE'):
        assert a == CallOp(name, [r] + kids), "method-call sugar does not build f(receiver, args...)"
    hlib.done()


def call_spellings(args: List[int], name: str, recv: int) -> None:
    """
    pre: len(args) <= 3 and len(name) <= 2
    post: True
    """
    hlib.enter(locals())
    kids = _kids(args)
    r = ValueOp(recv)
    if kids:
        dot = run_prod('expression', ['expression', 'DOT', 'NAME', 'LPAREN', 'arglist', 'RPAREN'],
                         [r, '.', name, '(', list(kids), ')'])
        pipe = run_prod('expression', ['expression', 'PIPE', 'NAME', 'LPAREN', 'arglist', 'RPAREN'],
                          [r, '|', name, '(', list(kids), ')'])
    else:
        dot = run_prod('expression', ['expression', 'DOT', 'NAME', 'LPAREN', 'RPAREN'], [r, '.', name, '(', ')'])
        pipe = run_prod('expression', ['expression', 'PIPE', 'NAME'], [r, '|', name])
    plain = run_prod('expression', ['NAME', 'LPAREN', 'arglist', 'RPAREN'], [name, '(', [r] + list(kids), ')'])
    assert dot == plain and pipe == plain, "r.f(a), r | f(a) and f(r, a) build different trees"
    hlib.done()


def group_is_transparent(v: int) -> None:
    """
    pre: True
    post: True
    """
    hlib.enter(locals())
    inner = ValueOp(v)
    g = run_prod('expression', ['LPAREN', 'expression', 'RPAREN'], ['(', inner, ')'])
    assert g is inner, "parenthesised expression does not yield the inner tree itself"
    hlib.done()
