"""C18 harnesses: list_names yields exactly the NAME tokens; every name an evaluation asks the host for is one of them
(or a fixed implicit name)."""
import dataclasses

from sqv import hlib
from sqv.nodes import build, mkstate, Tok as NTok
from sqv.pstub import Tok, Lexer, load_productions, run_action
from smartquery import SqParser, lexer, rules, ast_ops
from smartquery.ast_ops import Op, ValueOp, NameOp
from smartquery.scoped_dict import ScopedDict
from smartquery.vm_state import VMState
from sqv.api import run_eval, prewarm, PARSER, CACHED

IMPLICIT = {'list', 'dict', '__getitem__', '__setitem__', '__delitem__', '__setitem_with_op__'}
KEYWORDS = {'and', 'or', 'in', 'not', 'if', 'else', 'True', 'False', 'None', 'del', 'for', 'while', 'break', 'continue', 'def',
            'raise', 'elif'}
TYPES = ['NAME', 'NUMBER', 'STRING', 'IF', 'PLUS', 'LPAREN', 'NEWLINE', 'TRUE', 'COMMENT', 'NONE']


class StubLexer:
    """stands in for the PLY lexer object held by SqParser: a token stream independent of the text"""

    def __init__(self, toks, lexpos, lineno, paren):
        self.toks = toks
        self.lexpos, self.lineno, self.paren_count = lexpos, lineno, paren
        self.i = 0
        self.inputs = []

    def input(self, text):
        self.inputs.append((text, self.lexpos, self.lineno, self.paren_count))
        self.i = 0

    def token(self):
        if self.i >= len(self.toks):
            return None
        t = self.toks[self.i]
        self.i += 1
        return t


def _parser_with(lx):
    """a parser object with every attribute a constructed SqParser has (own copies), but the given lexer"""
    import copy
    p = object.__new__(SqParser)
    for k, v in vars(PARSER).items():
        if k not in ('lex', 'yacc'):
            p.__dict__[k] = copy.deepcopy(v)
    p.yacc = PARSER.yacc
    p.lex = lx
    p.parse_cache = None
    return p


def names_filter(n: int, b0: bool, b1: bool, b2: bool, b3: bool, ko: int, v0: str, v1: str, v2: str, v3: str,
                 lexpos: int, lineno: int, paren: int, ti: int) -> None:
    """
    pre: 0 <= n <= 4 and 1 <= ko <= 3 and len(v0) <= 2 and 0 <= ti <= 1
    post: True
    """
    hlib.enter(locals())
    other = TYPES[ko]
    v1, v2, v3 = 'w1', 'w2', 'if' 
    kinds = [('NAME' if b else other) for b in (b0, b1, b2, b3)][:n]
    vals = [v0, v1, v2, v3][:n]
    text = ['None', 'abc', 'a b', ''][ti]
    lx = StubLexer([Tok(t, v, 1) for t, v in zip(kinds, vals)], lexpos, lineno, paren)
    with hlib.native():
        p = _parser_with(lx)
    got = list(SqParser.list_names(p, text))
    exp = [v for t, v in zip(kinds, vals) if t == 'NAME']
    assert got == exp, "list_names does not yield exactly the values of the NAME tokens, in order"
    assert len(lx.inputs) == 1 and lx.inputs[0] == (text, 0, 1, 0), "list_names does not reset position / line / bracket depth before lexing the given text"
    hlib.done()


def names_twice(n: int, taken: int, ti: int) -> None:
    """
    pre: 0 <= n <= 4 and 0 <= taken <= 4 and 0 <= ti <= 2
    post: True
    """
    # an earlier call on the same parser (fully or partially consumed, or failing) does not change the next one
    hlib.enter(locals())
    text = ['abc', 'a b', ''][ti]
    toks = [Tok('NAME', 'n%d' % i, 1) for i in range(n)]
    lx = StubLexer(toks, 0, 1, 0)
    with hlib.native():
        p = _parser_with(lx)
    g = SqParser.list_names(p, text)
    for _ in range(taken):
        try:
            next(g)
        except StopIteration:
            break
    got = list(SqParser.list_names(p, text))
    assert got == ['n%d' % i for i in range(n)], "list_names after a partially consumed earlier call lost or repeated names"
    hlib.done()


def name_retyping(v: str, ki: int, use_kw: bool) -> None:
    """
    pre: len(v) <= 3 and 0 <= ki < 17
    post: True
    """
    hlib.enter(locals())
    value = sorted(KEYWORDS)[ki] if use_kw else v
    t = Tok('NAME', value, 1, Lexer(1))
    r = lexer.t_NAME(t)
    assert r is t
    assert (r.type != 'NAME') == (value in KEYWORDS), "NAME rule: keywords (and only keywords) are not names"
    hlib.done()


load_productions()
from sqv import pstub  # noqa


def _name_fields(obj, acc, depth=0):
    if depth > 6:
        return
    if isinstance(obj, Op) and not getattr(obj, '_sentinel', False):
        if dataclasses.is_dataclass(obj):
            for f in dataclasses.fields(obj):
                v = getattr(obj, f.name)
                if f.name == 'name' and isinstance(v, str):
                    acc.append(v)
                else:
                    _name_fields(v, acc, depth + 1)
    elif isinstance(obj, (list, tuple)):
        for x in obj:
            _name_fields(x, acc, depth + 1)


def action_names(a: str, b: str) -> None:
    """
    pre: 1 <= len(a) <= 2 and 1 <= len(b) <= 2
    post: True
    """
    # every name field of a node built by this production's action is the value of one of ITS NAME tokens, or implicit
    hlib.enter(locals())
    lhs, syms = hlib.PARAM["lhs"], hlib.PARAM["syms"]
    fn = pstub.production_fn(lhs, syms)
    names = [a, b]
    vals, mine = [], []
    for s in syms:
        if s == 'NAME':
            v = names[len(mine) % 2] + str(len(mine))
            mine.append(v)
            vals.append(v)
        elif s in ('expression', 'statement', 'line', 'slice'):
            e = ValueOp(0)
            e._sentinel = True
            vals.append(e if s != 'slice' else [e])
        elif s in ('arglist', 'arglist_def'):
            e = ValueOp(1)
            e._sentinel = True
            vals.append([e])
        elif s == 'dict_item':
            e = ValueOp(2)
            e._sentinel = True
            vals.append([(e, e)])
        elif s == 'code':
            vals.append(None)
        else:
            vals.append({'SHORT_OP': '+=', 'NUMBER': 1, 'STRING': 's', 'COLON': ':'}.get(s, s.lower()))
    lx = Lexer()
    lx.ast = ast_ops.CodeOp([])
    try:
        res = run_action(fn, list(syms), vals, lx)
    except Exception:
        hlib.done()
        return
    acc = []
    _name_fields(res, acc)
    _name_fields(lx.ast, acc)
    for nm in acc:
        assert nm in mine or nm in IMPLICIT, "action of `%s : %s` puts a name into the tree that is neither one of its NAME tokens nor an implicit name" % (lhs, " ".join(syms))
    hlib.done()


class RecScoped(ScopedDict):
    def __init__(self, scope):
        super().__init__(scope)
        self.asked = []

    def __getitem__(self, item):
        self.asked.append(item)
        return super().__getitem__(item)

    def __setitem__(self, k, v):
        self.asked.append(k)
        super().__setitem__(k, v)


def node_lookups(nch: int, bound: bool) -> None:
    """
    pre: 0 <= nch <= 2
    post: True
    """
    # the evaluator asks the names mapping only for the node's own `name` (and a lambda binds only its NameOp parameters)
    hlib.enter(locals())
    kind, op = hlib.PARAM["kind"], hlib.PARAM["op"]
    node, stubs = build(kind, op, [], [NTok(True)] * 4, nch, -1, value=7)
    nm = hlib.PARAM.get("name", 'x')
    if hasattr(node, 'name'):
        node.name = nm
    rs = RecScoped({nm: (lambda *a: 0) if kind == 'CallOp' else 5} if bound else {})
    st = VMState(names=rs, max_ops_evaluated=10**6)
    try:
        r = node.eval(st)
        if kind == 'LambdaOp':
            r(1, 2)
    except Exception:
        pass
    allowed = {nm} if any(f.name == 'name' for f in dataclasses.fields(node)) else set()
    for k in rs.asked:
        assert k in allowed, "node kind %s looks up / binds a name that is not its own name field" % kind
    if kind == 'LambdaOp':
        pass
    hlib.done()


class RecDict(dict):
    def __init__(self, *a):
        super().__init__(*a)
        self.asked = []

    def __contains__(self, k):
        self.asked.append(k)
        return super().__contains__(k)

    def __getitem__(self, k):
        self.asked.append(k)
        return super().__getitem__(k)


TEMPLATES = [
    "a + b.f(c) | g(%d e%) if not h else [i, {j: k}][l:m]",
    "x = y\nz += w\nv[u] = t\ndel s[r]\nq[p] -= o",
    "f = (n1, n2) => n1 + n3\nf(n4, 1)",
    "# c1 c2\n'c3' + \"c4\" + r'c5' + %c6.c7% + c8",
    "True and None or False or nm",
    "m | map(v => v + k1) | filter(w => w > k2)",
    "%not bound% + 1",
    "%un.bound f%(1)",
    "%un bound% += 1",
    "%order\u00a0total% * 2 + %a\u202fb%",
    "%tab\there% + %semi;colon% + %hash#tag%",
    "'n = ' + nm", "'x' + None + [nm] + {1: nm}", "[nm] + [1] | len", "nm * 2 - nm / 1", "-nm if not nm else nm ** 2", "nm in [nm] and 'a' not in 'abc'",
    "'s' + (nm > 0) + (nm == nm)", "m[0] += nm\nm[1:]", "x = nm\nx += 'a'",
]
if isinstance(hlib.PARAM, dict) and "t" in hlib.PARAM:
    prewarm(TEMPLATES[hlib.PARAM["t"]])


def api_lookups(a: int, flag: bool) -> None:
    """
    pre: True
    post: True
    """
    hlib.enter(locals())
    text = TEMPLATES[hlib.PARAM["t"]]
    if hlib.PARAM["t"] >= 11:
        a = hlib.concrete(a, -1, 2)          # (these templates format / compute with the host value)
    with hlib.native():
        listed = set(PARSER.list_names(text))
    host = RecDict({'h': flag, 'm': [a, a], 'k1': a, 'k2': a, 'nm': a, 'c8': 'z', '%c6.c7%': 'y', 'y': a, 'n4': a, 'n3': a})
    run_eval(text, host, 200)
    for k in host.asked:
        assert k in listed or k in IMPLICIT, "evaluation asked the host mapping for %r, which list_names does not report" % (k,)
    hlib.done()


NEAR = [("%order total% + 1", "%order  total% + 1"), ("%a b%(1)", "%a\tb%(1)"), ("%x y% += 1", "%x  y% += 1"),
        ("%p q% if %r s% else 0", "%p  q% if %r  s% else 0"), ("[%k 1%, %k  1%]", "[%k  1%, %k 1%]"), ("%q%", " %q% "), ("q.%m n%()", "q.%m  n%()"),
        ("[a, {b: c}] | f(x if y else z)", "[a, {b: c}] | f(x if y else z)"), ("p = {}\nq = [] + [r.s(t)]", "p = {}\nq = [] + [r.s(t)]"),
        ("picked = [a, b] | filter(v => v > limit)", "picked = [a, b] | filter(v => v > limit)")]
with hlib.native(unwalled=True):
    _C18CACHE = {}
    CACHING = SqParser(parse_cache=_C18CACHE)


def api_lookups_cached(pi: int, swap: bool, parse_first: bool) -> None:
    """
    pre: 0 <= pi < 10
    post: True
    """
    # a parser with a parse cache that has just handled a NEAR-DUPLICATE of the text (blank runs inside %names% differ):
    # evaluation still asks the host only for names that list_names reports for THIS text
    hlib.enter(locals())
    pi = hlib.concrete(pi, 0, 9)
    first, text = NEAR[pi][::-1] if swap else NEAR[pi]
    with hlib.native():
        _C18CACHE.clear()
        try:
            if parse_first:
                CACHING.parse(first)
            else:
                CACHING.eval(first, {})
        except Exception:
            pass
        listed = set(CACHING.list_names(text))
        fresh = set(PARSER.list_names(text))
        host = RecDict({})
        try:
            CACHING.eval(text, host)
        except Exception:
            pass
        asked = list(host.asked)
    assert listed == fresh, "list_names(%r) differs between a parser with a parse cache (%r) and one without (%r)" % (text, sorted(listed), sorted(fresh))
    for k in asked:
        assert k in listed or k in IMPLICIT, "after %r, evaluating %r asked the host mapping for %r, which list_names does not report" % (first, text, k)
    hlib.done()


with hlib.native(unwalled=True):
    OTHER = SqParser()


def names_interleaved(taken: int, what: int) -> None:
    """
    pre: 0 <= taken <= 4 and 0 <= what <= 3
    post: True
    """
    # a lazily consumed listing is not disturbed by calls on ANOTHER parser in between
    hlib.enter(locals())
    taken, what = hlib.concrete(taken, 0, 4), hlib.concrete(what, 0, 3)
    with hlib.native():
        text = "%price% * qty + tax(rate, %ship ping%) # note"
        full = list(PARSER.list_names(text))
        g = PARSER.list_names(text)
        got = []
        for _ in range(taken):
            got.append(next(g))
        try:
            if what == 0:
                OTHER.eval("1 + 1")
            elif what == 1:
                OTHER.parse("zz = [1,\n 2")
            elif what == 2:
                list(OTHER.list_names("other names here"))
            else:
                next(OTHER.list_names("x y z"))
        except Exception:
            pass
        got += list(g)
    assert got == full == ['%price%', 'qty', 'tax', 'rate', '%ship ping%'], "a call on another parser disturbed a partly consumed list_names()"
    hlib.done()


# exact listings for texts with identifiers that START or END like keywords, keywords next to names, and %..% names
EXACT = [
    ("not index and inx", ['index', 'inx']), ("a not in b", ['a', 'b']), ("not int(x) or order", ['int', 'x', 'order']),
    ("iffy = 1 if elsewhere else android", ['iffy', 'elsewhere', 'android']), ("nota = notb not in inc", ['nota', 'notb', 'inc']),
    ("not  inside", ['inside']), ("not\tin_ + Truely + Nonesuch + delta", ['in_', 'Truely', 'Nonesuch', 'delta']),
    ("x.format(y) | andor(z) # notin here", ['x', 'format', 'y', 'andor', 'z']), ("%not in% + %a if b%", ['%not in%', '%a if b%']),
    ("del delx[0]\nfor_ = 1", ['delx', 'for_']), ("f = (inn, orr) => inn or orr", ['f', 'inn', 'orr', 'inn', 'orr']),
    ("a not in (b)\nnot (c) in d", ['a', 'b', 'c', 'd']), ("1 if not_ else 2", ['not_']),
]
BAD_FIRST = ["price ? qty", "a $", "f(1 ? 2", "'unterminated ? x", "x = (1,\n? y", "1 +", "for", ")", "a ` b `"]


def names_exact(ti: int, first: int, how: int) -> None:
    """
    pre: 0 <= ti < 13 and -1 <= first < 9 and 0 <= how <= 2
    post: True
    """
    # list_names(text) is exactly the identifiers of the text, also right after a failed call on the same parser
    # (lexical error, syntax error, both at once, abandoned listing)
    hlib.enter(locals())
    ti, first, how = hlib.concrete(ti, 0, 12), hlib.concrete(first, -1, 8), hlib.concrete(how, 0, 2)
    text, want = EXACT[ti]
    with hlib.native():
        p = OTHER
        if first >= 0:
            try:
                if how == 0:
                    p.eval(BAD_FIRST[first], {})
                elif how == 1:
                    p.parse(BAD_FIRST[first])
                else:
                    next(p.list_names(BAD_FIRST[first]), None)
            except Exception:
                pass
        try:
            got = ('ok', list(p.list_names(text)))
        except Exception as e:
            got = ('err', type(e).__name__, str(e))
    assert got == ('ok', want), "list_names(%r)%s = %r, expected %r" % (text, (" after a failed call on %r" % BAD_FIRST[first]) if first >= 0 else "", got, want)
    hlib.done()
