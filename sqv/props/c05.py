from sqv.driver import Obligation


def plan(ctx):
    T = 60 if ctx["tier"] == "quick" else 300
    obs = [Obligation("constant", "xh", "c05", "timeout_constant", timeout=T, bounds="-", desc="0 < REGEX_TIMEOUT <= 0.1")]
    from smartquery.functions import FUNCTIONS
    uncovered = []
    for fn in ('match', 'match_groups', 'match_all'):
        if fn not in FUNCTIONS:
            uncovered.append(f"{fn} missing from the function table")
            continue
        obs.append(Obligation(f"engine_calls.{fn}", "xh", "c05", "engine_calls", param={"fn": fn}, timeout=T * 4,
                              bounds="flag string: every subset of {i,m,s,x} in lower or upper case, or None, or omitted (symbolic); the stubbed engine reports 0..4 matches (symbolic); clock readings are arbitrary non-decreasing instants (symbolic increments 0..10 s); every re/regex module and precompiled pattern reachable from functions.py is stubbed; the primary engine may reject the pattern (symbolic)",
                              desc=f"{fn}: every entry into a regular-expression engine carries timeout in [0, 0.1]; at most 2 engine calls per builtin call"))
    return {
        "obligations": obs, "uncovered": uncovered,
        "explanation": "REDUCED SCOPE: wall-clock behaviour of the `regex` C engine cannot be encoded. Decided with CrossHair (z3): with "
                       "the regex module replaced by a recording stub, on every path of the three builtins (symbolic subject/pattern/flags) "
                       "each engine entry carries the small timeout and the number of engine entries is bounded.",
        "functions": ["smartquery.functions._match", "_match_groups", "_match_all", "_parse_flags"],
        "files": ["smartquery/functions.py"],
        "bounds": "flag subsets of {i,m,s,x}; engine hit count 0..4",
        "outside": "the timing claim itself: rests on the regex module honouring timeout= (and pattern compilation, which has no timeout)",
        "stubs": ["regular-expression engine stub for every re/regex module object and precompiled pattern in smartquery.functions", "nondeterministic clock for time.time/perf_counter/monotonic/process_time"],
        "assumptions": ["regex honours its timeout argument", "pattern compilation time is not covered"],
        "trusted": ["CrossHair 0.0.110", "z3", "regex (third party)"],
    }
