import sys, os; sys.path.insert(0, os.getcwd())

import smartquery
from smartquery import SqParser, ParserError

assert smartquery.__file__.startswith(os.getcwd()), smartquery.__file__

parser = SqParser()


def run(lines, names):
    return parser.eval('\n'.join(lines), names=names, max_ops_evaluated=1000)


# model: a python list driven by the same operation sequence
names = {'a': []}
model = []

for v in (10, 20, 30):
    run([f'a.push({v})'], names)
    model.append(v)

# forms that behave the same with and without the change
assert run(['a.pop()'], names) == model.pop()          # last element
assert names['a'] == model == [10, 20]

run(['a.push(30)', 'a.push(40)'], names)
model += [30, 40]

assert run(['a.pop(1)'], names) == model.pop(1)
assert run(['a.pop(-1)'], names) == model.pop(-1)
assert run(['a.pop(0.5)'], names) == model.pop(0)      # decimals truncate: position 0
assert names['a'] == model == [30], (names['a'], model)

# on a one element list pop(0) and pop(-1) coincide
assert run(['a.pop(0)'], names) == model.pop(0)
assert names['a'] == model == []

# popping an empty list raises ParserError and changes nothing
for expr in ('a.pop()', 'a.pop(0)'):
    try:
        run([expr], names)
    except ParserError:
        pass
    else:
        raise AssertionError(f'{expr} on an empty list must raise ParserError')
assert names['a'] == []

# position 0 of a list with at least two elements: the FIRST element has to go
names = {'q': ['first', 'middle', 'last']}
model = ['first', 'middle', 'last']

got = run(['q.pop(0)'], names)
want = model.pop(0)
assert got == want, f'q.pop(0) returned {got!r}, the model returned {want!r}'
assert names['q'] == model, f'after q.pop(0): {names["q"]!r}, model holds {model!r}'

# same through a computed index and the pipe form
names = {'q': [1, 2, 3], 'i': 0}
assert run(['q | pop(i)'], names) == 1
assert names['q'] == [2, 3], names['q']

names = {'q': [1, 2, 3]}
assert run(['q.pop(q.index_of(1))'], names) == 1
assert names['q'] == [2, 3], names['q']

print('OK')
