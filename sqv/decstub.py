"""Recording stand-in for smartquery.custom_types.Decimal (the C constructor / libmpdec cannot be executed
symbolically).  The constructor records its argument (the real constructor is exact), every operator records
(op, left, right) and returns an opaque result; __float__ raises so that a detour through float is visible."""
from decimal import Decimal as RealDecimal, InvalidOperation

LOG = []


class DecStub:
    def __init__(self, arg='0'):
        if isinstance(arg, DecStub):
            self.arg, self.op = arg.arg, arg.op
            return
        if isinstance(arg, (list, dict, tuple)) and not isinstance(arg, tuple):
            raise TypeError("conversion from %s to Decimal is not supported" % type(arg).__name__)
        if arg is None:
            raise TypeError("conversion from NoneType to Decimal is not supported")
        if type(arg) is str:
            try:
                RealDecimal(arg)
            except InvalidOperation:
                raise
        self.arg = arg
        self.op = None
        LOG.append(('ctor', type(arg).__name__))

    def _bin(name):
        def f(self, other):
            if not isinstance(other, DecStub):
                if isinstance(other, (int, RealDecimal)) and not isinstance(other, bool) or isinstance(other, bool):
                    other = DecStub(other)
                else:
                    return NotImplemented
            r = DecStub.__new__(DecStub)
            r.arg = None
            r.op = (name, self, other)
            LOG.append((name,))
            return r
        return f

    __add__ = _bin('add')
    __sub__ = _bin('sub')
    __mul__ = _bin('mul')
    __truediv__ = _bin('div')
    __pow__ = _bin('pow')
    __radd__ = _bin('radd')
    __rsub__ = _bin('rsub')
    __rmul__ = _bin('rmul')
    __rtruediv__ = _bin('rdiv')
    __rpow__ = _bin('rpow')

    def _rec(self, what, ret):
        LOG.append((what,))
        return ret

    def __int__(self):
        return self._rec('int', 7)

    def __floor__(self):
        return self._rec('floor', 7)

    def __ceil__(self):
        return self._rec('ceil', 7)

    def __round__(self, nd=None):
        if nd is None:
            return self._rec('round', 7)
        r = DecStub.__new__(DecStub)
        r.arg = None
        r.op = ('round', self, nd)
        return r

    def __abs__(self):
        r = DecStub.__new__(DecStub)
        r.arg = None
        r.op = ('abs', self)
        return r

    def __str__(self):
        return '7.5'

    def __lt__(self, other):
        return self._rec('lt', True)

    def __gt__(self, other):
        return self._rec('gt', False)

    def __le__(self, other):
        return self._rec('le', True)

    def __ge__(self, other):
        return self._rec('ge', False)

    def __eq__(self, other):
        return self is other

    def __hash__(self):
        return id(self)

    def __neg__(self):
        r = DecStub.__new__(DecStub)
        r.arg = None
        r.op = ('neg', self)
        return r

    def __float__(self):
        raise AssertionError("Decimal value converted to binary float")

    def __repr__(self):
        return "DecStub(%r)" % (self.arg if self.op is None else self.op[0],)
