import sys, os; sys.path.insert(0, os.getcwd())

import smartquery
from smartquery import SqParser

assert smartquery.__file__.startswith(os.getcwd()), smartquery.__file__

parser = SqParser()

# 1. Host-supplied tree whose nodes carry a link to their parent (a cyclic, but perfectly legal, value).
parent = {'name': 'p', 'tags': ['t0']}
child = {'name': 'ch', 'parent': parent}
names = {'parent': parent, 'child': child}

parser.eval('parent["first"] = child', names=names)
stored = parent['first']
assert stored is not child

# mutate through the other variable / the host object after the assignment
parser.eval('parent["name"] = "renamed"\nparent["tags"].push("t1")', names=names)
parent['extra'] = 1

# the stored value is an independent copy: nothing of that may show through it
assert stored['parent'] is not parent, 'stored value shares the host object `parent`'
assert stored['parent']['name'] == 'p', stored['parent']['name']
assert stored['parent']['tags'] == ['t0'], stored['parent']['tags']
assert 'extra' not in stored['parent']

# ... and mutations of the stored value are not visible elsewhere
parser.eval('parent["first"]["parent"]["seen"] = True', names=names)
assert 'seen' not in parent, f'host object changed through the stored value: {sorted(parent)}'

# 2. The plain form: c[k] = c stores a snapshot of c
names = {'c': {'n': [1]}}
parser.eval('c["snap"] = c\nc["n"].push(2)', names=names)
c = names['c']
assert c['snap'] is not c
assert c['snap'] == {'n': [1]}, c['snap']

# 3. compound index form, value containing the target
names = {'c': {'log': []}}
parser.eval('c["log"] += [c]\nc["x"] = 1', names=names)
c = names['c']
assert c['log'][0] is not c
assert c['log'][0] == {'log': []}, c['log'][0]

print('ok')
