import sys, os; sys.path.insert(0, os.getcwd())

import smartquery
from smartquery import SqParser

assert smartquery.__file__.startswith(os.getcwd()), smartquery.__file__

parser = SqParser()


def outcome(expr, names=None):
    """('value', v) or ('error', exception type name)"""
    try:
        return 'value', parser.eval(expr, names=names)
    except Exception as e:
        return 'error', type(e).__name__


# sanity: callable bindings shadow innermost-first
assert parser.eval('max(1, 2)', names={'max': lambda a, b: 'host'}) == 'host'
assert parser.eval('f = max => max(1, 2)\nf((a, b) => "param")', names={'max': lambda a, b: 'host'}) == 'param'

# 1. a host binding overrides the builtin of the same name, whatever its value: the call must
#    resolve `max` to the host's 10 (and so fail), never reach through to the builtin
r = outcome('max(1, 2)', names={'max': 10})
assert r[0] == 'error', f'host binding max=10 did not hide the builtin: {r}'

# 2. a top-level assignment does the same
r = outcome('sum = 0\nsum += 5\nsum([1, 2])')
assert r[0] == 'error', f'top-level binding sum=5 did not hide the builtin: {r}'

# 3. a lambda parameter shadows both the host binding and the builtin
r = outcome('f = len => len([1, 2, 3])\nf(7)')
assert r[0] == 'error', f'parameter len=7 did not hide the builtin: {r}'

r = outcome('f = g => g()\nf(7)', names={'g': lambda: 'host g'})
assert r[0] == 'error', f'parameter g=7 did not hide the host binding: {r}'

# 4. inside map: the parameter named like the callback's helper wins in every call
r = outcome('[1, 2] | map(str => str(str))')
assert r[0] == 'error', f'parameter str did not hide the builtin inside map: {r}'

print('ok')
