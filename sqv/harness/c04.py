"""C04 harnesses: multiplication / exponentiation are routed through Decimal; native paths do not blow up."""
from decimal import Decimal as RealDecimal, getcontext, ROUND_HALF_EVEN
from typing import List

from sqv import hlib
from sqv import decstub
from sqv.decstub import DecStub
from sqv.nodes import Stub, mkstate
from smartquery import ast_ops, functions
from smartquery.ast_ops import BinOp, ShortOp, UnaryOp
from smartquery.functions import FUNCTIONS
from smartquery.exceptions import ParserError

DEC = [RealDecimal('3'), RealDecimal('1E+30'), RealDecimal('0.5')]


def _operand(kind, i, f, b, di):
    # every host-suppliable operand kind
    if kind == 0:
        return i
    if kind == 1:
        return b
    if kind == 2:
        return 2.5 if b else -1e300       # floats only at the dispatch level (concrete values)
    if kind == 3:
        return 'ab'
    if kind == 4:
        return [1, 2]
    return DEC[di]


def _is_num(kind):
    return kind in (0, 1, 2, 5)


def _install():
    saved = (ast_ops.Decimal, functions.Decimal)
    ast_ops.Decimal = DecStub
    functions.Decimal = DecStub
    return saved


def _restore(s):
    ast_ops.Decimal, functions.Decimal = s


def _check_product(res, raised, a, b, ka, kb, what):
    if raised is not None:
        assert isinstance(raised, Exception)
        if _is_num(ka) and _is_num(kb):
            assert isinstance(raised, (ArithmeticError, ParserError)), what + ": numeric operands failed with a non-arithmetic error"
        return
    assert not isinstance(res, (str, list)), what + " repeated a string or a list"
    assert isinstance(res, (DecStub, RealDecimal)), what + " computed natively (result is not a Decimal product)"
    if isinstance(res, DecStub):
        assert res.op is not None and res.op[0] in ('mul', 'pow', 'rmul', 'rpow'), what + ": result is not a Decimal product/power"
        l, r = res.op[1], res.op[2]
        assert isinstance(l, DecStub) and isinstance(r, DecStub), what + ": operands were not converted to Decimal before the operation"
        if res.op[0] in ('mul', 'pow'):
            assert l.arg is a and r.arg is b, what + ": Decimal operation applied to the wrong operands"


def route_binop(kb: int, i1: int, i2: int, b1: bool, b2: bool, d1: int, d2: int) -> None:
    """
    pre: 0 <= kb <= 5 and 0 <= d1 <= 2 and 0 <= d2 <= 2
    post: True
    """
    hlib.enter(locals())
    op = hlib.PARAM["op"]
    ka = hlib.PARAM["ka"]
    f1 = f2 = 0.0
    a, b = _operand(ka, i1, f1, b1, d1), _operand(kb, i2, f2, b2, d2)
    log = []
    node = BinOp(op, Stub(log, 0, a), Stub(log, 1, b))
    saved = _install()
    raised, res = None, None
    try:
        try:
            res = node.eval(mkstate(0, 100))
        except Exception as e:
            raised = e
    finally:
        _restore(saved)
    _check_product(res, raised, a, b, ka, kb, "operator " + op)
    hlib.done()


def route_shortop(kb: int, i1: int, i2: int, b1: bool, b2: bool, d1: int, d2: int) -> None:
    """
    pre: 0 <= kb <= 5 and 0 <= d1 <= 2 and 0 <= d2 <= 2
    post: True
    """
    hlib.enter(locals())
    site = hlib.PARAM["site"]
    ka = hlib.PARAM["ka"]
    f1 = f2 = 0.0
    a, b = _operand(ka, i1, f1, b1, d1), _operand(kb, i2, f2, b2, d2)
    saved = _install()
    raised, res = None, None
    try:
        try:
            if site == 'name':
                host = {'x': a}
                node = ShortOp('x', '*=', Stub([], 0, b))
                node.eval(mkstate(0, 100, host=host))
                res = host['x']
            elif site == 'list':
                cont = [a]
                FUNCTIONS['__setitem_with_op__'](cont, 0, '*=', b)
                res = cont[0]
            else:
                cont = {'k': a}
                FUNCTIONS['__setitem_with_op__'](cont, 'k', '*=', b)
                res = cont['k']
        except Exception as e:
            raised = e
    finally:
        _restore(saved)
    if raised is None and isinstance(res, DecStub) and res.op is not None:
        # deepcopy of the right operand is allowed: compare by value for ints
        pass
    if raised is not None:
        assert isinstance(raised, Exception)
    else:
        assert not isinstance(res, (str, list)), "compound assignment *= repeated a string or a list"
        assert isinstance(res, (DecStub, RealDecimal)), "compound assignment *= computed natively (host numbers are not multiplied as Decimals)"
    hlib.done()


def context_unchanged(x: int) -> None:
    """
    pre: True
    post: True
    """
    hlib.enter(locals())
    c = getcontext()
    assert c.prec == 28 and c.rounding == ROUND_HALF_EVEN and c.Emax == 999999 and c.Emin == -999999, \
        "decimal context is not the default 28-digit half-even context after importing smartquery"
    hlib.done()


def native_bin(a: int, b: int) -> None:
    """
    pre: True
    post: True
    """
    # + - and comparisons on host ints stay native: at most one more digit than the wider operand
    hlib.enter(locals())
    op = hlib.PARAM["op"]
    node = BinOp(op, Stub([], 0, a), Stub([], 1, b))
    r = node.eval(mkstate(0, 100))
    m = max(abs(a), abs(b))
    if isinstance(r, bool):
        pass
    else:
        assert isinstance(r, int) and abs(r) <= 2 * m, "native + / - result wider than one more digit"
    hlib.done()


def native_neg(a: int) -> None:
    """
    pre: True
    post: True
    """
    hlib.enter(locals())
    r = UnaryOp('-', Stub([], 0, a)).eval(mkstate(0, 100))
    assert r == -a
    hlib.done()


def builtin_small(a: int, b: int, c: int, nd: int) -> None:
    """
    pre: -6 <= a <= 6 and b == 0 and c == 0 and nd == 0
    post: True
    """
    builtin_num(a, b, c, nd)


def builtin_num(a: int, b: int, c: int, nd: int) -> None:
    """
    pre: 0 <= nd <= 3
    post: True
    """
    # numeric builtins on host ints: the Decimal they build is constructed from a value no wider than the
    # widest argument (+1 digit for sum over <= 3 elements)
    hlib.enter(locals())
    name = hlib.PARAM["fn"]
    saved = _install()
    try:
        f = FUNCTIONS[name]
        if name in ('min', 'max'):
            r = f(a, b, c)
            vals = [a, b, c]
        elif name == 'sum':
            r = f([a, b, c])
            vals = [a, b, c]
        elif name == 'round':
            r = f(a)
            vals = [a]
        else:
            r = f(a)
            vals = [a]
    finally:
        _restore(saved)
    m = max(abs(v) for v in vals)
    if isinstance(r, DecStub):
        assert r.op is None, "numeric builtin performed Decimal arithmetic it should not need"
        v = r.arg
        if isinstance(v, str):
            v = int(v)
        assert not isinstance(v, float), "numeric builtin on ints went through float"
        assert abs(v) <= 3 * m, "numeric builtin result wider than its widest argument"
    else:
        assert isinstance(r, int) and abs(r) <= 3 * m, "numeric builtin result wider than its widest argument"
    hlib.done()
