"""Thorough tier: time-boxed search over SYMBOLIC PROGRAMS.  A list of small symbolic integers is decoded into a tree of
the real node classes (depth <= 3, three lines); the real evaluator (through SqParser.eval and its parse cache) is
compared with the reference interpreter on value, error class, names afterwards, operations charged and the budget
boundary.  The space is far too large to exhaust: this is bug hunting, reported as such (never counted as a proof)."""
import copy as _copy

from sqv import hlib
from spec import refsem as R
from smartquery import ast_ops as A
from smartquery.custom_types import Decimal
from smartquery.functions import FUNCTIONS
from smartquery.exceptions import ParserError, OpsExecutionLimitExceededError as OpsLimit
from sqv.api import CACHED, api_count, api_reset
from sqv.harness.c07 import _compare, _run, _cls, _isfn

BIN = ['+', '-', '==', '<', 'and', 'or', 'in', '>=', '!=', 'not in']
NAMES = ['a', 'b', 'l', 'd', 's', 'x']
CONSTS = [0, 1, 'k', None, True, Decimal('2')]
CALLS = [('len', 1), ('list', 2), ('__getitem__', 2), ('get', 2), ('str', 1), ('sum', 1), ('keys', 1), ('sorted', 1), ('reversed', 1),
         ('push', 2), ('index_of', 2), ('max', 2)]


class Codes:
    def __init__(self, vals):
        self.vals = list(vals)
        self.i = 0

    def next(self, n):
        if self.i >= len(self.vals):
            return 0
        v = self.vals[self.i]
        self.i += 1
        return hlib.concrete(v, 0, 7) % n


def expr(cs, depth):
    k = cs.next(8)
    if depth <= 0 or k <= 1:
        if k % 2 == 0:
            return A.NameOp(NAMES[cs.next(len(NAMES))])
        return A.ValueOp(CONSTS[cs.next(len(CONSTS))])
    if k == 2 or k == 3:
        return A.BinOp(BIN[cs.next(len(BIN))], expr(cs, depth - 1), expr(cs, depth - 1))
    if k == 4:
        return A.UnaryOp(['-', 'not'][cs.next(2)], expr(cs, depth - 1))
    if k == 5:
        return A.IfExprOp(expr(cs, depth - 1), expr(cs, depth - 1), expr(cs, depth - 1))
    if k == 6:
        name, ar = CALLS[cs.next(len(CALLS))]
        return A.CallOp(name, [expr(cs, depth - 1) for _ in range(ar)])
    if cs.next(2) == 0:
        return A.DictOp([(expr(cs, depth - 1), expr(cs, depth - 1))])
    lam = A.LambdaOp([A.NameOp('v')], A.BinOp(BIN[cs.next(len(BIN))], A.NameOp('v'), expr(cs, depth - 1)))
    return A.CallOp('map', [A.NameOp('l'), lam])


def stmt(cs, depth):
    k = cs.next(4)
    if k == 0:
        return A.AssignOp('x', expr(cs, depth))
    if k == 1:
        return A.ShortOp(['x', 'a'][cs.next(2)], ['+=', '-='][cs.next(2)], expr(cs, depth))
    if k == 2:
        return A.CallOp('__setitem__', [A.NameOp(['l', 'd'][cs.next(2)]), expr(cs, depth - 1), expr(cs, depth - 1)])
    return expr(cs, depth)


def search(c0: int, c1: int, c2: int, c3: int, c4: int, c5: int, c6: int, c7: int, c8: int, c9: int, c10: int, c11: int,
           a: int, b: int, n: int) -> None:
    """
    pre: 0 <= c0 <= 7 and 0 <= c1 <= 7 and 0 <= c2 <= 7 and 0 <= c3 <= 7 and 0 <= c4 <= 7 and 0 <= c5 <= 7 and 0 <= c6 <= 7 and 0 <= c7 <= 7 and 0 <= c8 <= 7 and 0 <= c9 <= 7 and 0 <= c10 <= 7 and 0 <= c11 <= 7 and -2 <= a <= 3 and n >= 1
    post: True
    """
    hlib.enter(locals())
    if isinstance(hlib.PARAM, dict) and "first" in hlib.PARAM:
        hlib.assume(c0 == hlib.PARAM["first"])          # the search is split into 8 processes by the first code
    cs = Codes([c0, c1, c2, c3, c4, c5, c6, c7, c8, c9, c10, c11])
    d = 2
    tree = A.CodeOp([stmt(cs, d), stmt(cs, d), expr(cs, d)])
    key = "<generated program>"
    CACHED.parse_cache[key] = tree

    def host():
        return {'a': a, 'b': b, 'l': [a, b], 'd': {'p': a, 'k': b}, 's': 'k'}
    h1, h2, h3 = host(), host(), host()
    try:
        pair, fexc = _run(lambda: R.ref_run(_copy.deepcopy(tree), h2, FUNCTIONS))
    except (R.Unspecified, NotImplementedError):
        hlib.done()
        return
    ref, env = pair if fexc is None else (None, None)
    api_reset()
    real, rexc = _run(lambda: CACHED.eval(key, h1, max_ops_evaluated=10**6))
    started = api_count()
    _compare(real if not _isfn(real) else None, rexc, ref if not _isfn(ref) else None, fexc, "generated program %r" % (tree,))
    if fexc is None:
        k1 = {k: v for k, v in h1.items() if not _isfn(v)}
        k2 = {k: v for k, v in h2.items() if not _isfn(v)}
        assert k1 == k2, "generated program %r: names afterwards differ from the reference" % (tree,)
        assert started == env.ops, "generated program %r: %d operations charged, the reference evaluates %d nodes" % (tree, started, env.ops)
        # budget boundary: the same program under budget n
        _, bexc = _run(lambda: CACHED.eval(key, h3, max_ops_evaluated=n))
        assert isinstance(bexc, OpsLimit) == (env.ops >= n), "generated program %r: needs %d ops, budget boundary wrong" % (tree, env.ops)
    hlib.done()
