import sys, os; sys.path.insert(0, os.getcwd())

import smartquery
assert smartquery.__file__.startswith(os.getcwd()), smartquery.__file__

from smartquery import SqParser
from smartquery.exceptions import ParserError

CAP = 10000
parser = SqParser()


def run(expr, lst):
    """Run expr on the host list; return 'ParserError', 'error' (any other refusal) or 'ok'."""
    try:
        parser.eval(expr, names={'l': lst})
    except ParserError:
        return 'ParserError'
    except Exception:
        return 'error'
    return 'ok'


# single-value push: capped, and a full list is refused and left alone (with and without the change)
full = [0] * CAP
assert run('l.push(1)', full) == 'ParserError' and len(full) == CAP
almost = [0] * (CAP - 1)
assert run('l.push(1)', almost) == 'ok' and len(almost) == CAP
assert run('l.push(1)', almost) == 'ParserError' and len(almost) == CAP

# every way of calling push with more arguments, on lists just below the cap:
# whatever happens, the list must never end up longer than the cap
for start in (CAP - 2, CAP - 1):
    for expr in ('l.push(1, 2, 3)', 'push(l, 1, 2, 3)', 'l | push(1, 2, 3)', 'l.push(1, 2)'):
        lst = [0] * start
        outcome = run(expr, lst)
        assert len(lst) <= CAP, f'{expr} on a {start}-element list: {outcome}, list now has {len(lst)} elements (cap {CAP})'
        # a refused operation leaves the list untouched
        assert outcome == 'ok' or len(lst) == start, f'{expr} failed but changed the list to {len(lst)} elements'

print('OK: push cannot take a list past the cap')
