import sys, os; sys.path.insert(0, os.getcwd())
import signal
import time

import smartquery
assert smartquery.__file__.startswith(os.getcwd()), smartquery.__file__
from smartquery import SqParser

BOUND = 3.0          # compiling ~70k characters of pattern takes a few tenths of a second; never seconds
GUARD = 6            # hard stop so the demo itself never hangs

sq = SqParser()


class Hung(Exception):
    pass


def _alarm(*_):
    raise Hung()


signal.signal(signal.SIGALRM, _alarm)


def timed(expr, names):
    t0 = time.perf_counter()
    signal.alarm(GUARD)
    try:
        res = sq.eval(expr, names=names)
        outcome = 'result %r' % (res if not isinstance(res, (str, list)) else len(res),)
    except Hung:
        outcome = 'HUNG (killed by the demo after %d s)' % GUARD
    except Exception as e:
        outcome = type(e).__name__
    finally:
        signal.alarm(0)
    return time.perf_counter() - t0, outcome


# ordinary traffic first: short patterns, repeated
for _ in range(3):
    assert sq.eval(r'"1234 test" | match(r"\d+")') == '1234'
    assert sq.eval(r'"test 1234 test 256" | match_all(r"\d+")') == ['1234', '256']

# an unusual but perfectly legal input: one long (machine generated) pattern - a big alternation of
# literal words, a little over 64k characters of pattern text - against a short, harmless subject
words = ['w%05d' % i for i in range(10000)]
long_pattern = '|'.join(words)            # 69 999 characters
assert 65536 < len(long_pattern) < 100000
subject = 'xx w04711 yy'

worst = 0.0
for fn in ('match', 'match_groups', 'match_all'):
    elapsed, outcome = timed('%s(s, p, "i")' % fn, {'s': subject, 'p': long_pattern + '|' + fn})
    print('%-12s %-45s %.3f s' % (fn, outcome, elapsed))
    worst = max(worst, elapsed)

assert worst < BOUND, 'regex builtin kept the host busy for %.2f s (bound %.2f s)' % (worst, BOUND)
print('ok')
