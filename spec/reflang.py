"""Reference text-level language of smartquery, independent of the checked tree: the published token definitions and
productions of spec/grammar_ref.json plus the layout rules of the property statements (comments and blanks skipped,
line breaks inside (), [] and {} dropped, ';' always a statement separator).  `ref_tokens` turns a text into the token
types the grammar sees, `derivable` is an Earley recogniser for the plain productions (no operator-table filters:
enough for "accepted => derivable")."""
import json
import os
import re

_G = json.load(open(os.path.join(os.path.dirname(os.path.abspath(__file__)), "grammar_ref.json")))
_LX = _G["lexer"]
_RX = re.compile(_LX["pattern"], _LX["flags"])
_PRODS = [(p["name"], tuple(p["prod"])) for p in _G["productions"]]
_NT = {a for a, _ in _PRODS}
_BY = {}
for _i, (_a, _r) in enumerate(_PRODS):
    _BY.setdefault(_a, []).append(_i)
_NULLABLE = set()
_changed = True
while _changed:
    _changed = False
    for _a, _r in _PRODS:
        if _a not in _NULLABLE and all(x in _NULLABLE for x in _r):
            _NULLABLE.add(_a)
            _changed = True
START = _PRODS[0][0]


def ref_tokens(text):
    """token types as the grammar sees them, or None when the published token definitions reject a character"""
    out, pos, depth = [], 0, 0
    while pos < len(text):
        if text[pos] in _LX["ignore"]:
            pos += 1
            continue
        m = _RX.match(text, pos)
        if m is None or m.end() == pos:
            return None
        typ = _LX["groups"][m.lastindex]
        val = m.group(0)
        pos = m.end()
        if typ == 'COMMENT':
            continue
        if typ == 'NAME':
            typ = _LX["reserved"].get(val, 'NAME')
        if typ == 'NEWLINE' and val != ';' and depth > 0:
            continue
        if typ in ('LPAREN', 'LBRACKET', 'LBRACE'):
            depth += 1
        elif typ in ('RPAREN', 'RBRACKET', 'RBRACE'):
            depth -= 1
        out.append(typ)
    return out


def derivable(types, start=START):
    n = len(types)
    chart = [set() for _ in range(n + 1)]
    order = [[] for _ in range(n + 1)]

    def add(k, item):
        if item not in chart[k]:
            chart[k].add(item)
            order[k].append(item)
    for p in _BY[start]:
        add(0, (p, 0, 0))
    for k in range(n + 1):
        i = 0
        while i < len(order[k]):
            p, dot, origin = order[k][i]
            i += 1
            lhs, rhs = _PRODS[p]
            if dot < len(rhs):
                X = rhs[dot]
                if X in _NT:
                    for q in _BY[X]:
                        add(k, (q, 0, k))
                    if X in _NULLABLE:
                        add(k, (p, dot + 1, origin))
                elif k < n and types[k] == X:
                    add(k + 1, (p, dot + 1, origin))
            else:
                for (p2, d2, o2) in list(chart[origin]):
                    r2 = _PRODS[p2][1]
                    if d2 < len(r2) and r2[d2] == lhs:
                        add(k, (p2, d2 + 1, o2))
    return any(_PRODS[p][0] == start and dot == len(_PRODS[p][1]) and origin == 0 for (p, dot, origin) in chart[n])


def ref_tokens_pos(text):
    """(type, text, start, end, depth_before, depth_after) of the tokens the grammar sees, or None on a lexical error"""
    out, pos, depth = [], 0, 0
    while pos < len(text):
        if text[pos] in _LX["ignore"]:
            pos += 1
            continue
        m = _RX.match(text, pos)
        if m is None or m.end() == pos:
            return None
        typ = _LX["groups"][m.lastindex]
        val = m.group(0)
        start, pos = pos, m.end()
        if typ == 'COMMENT':
            continue
        if typ == 'NAME':
            typ = _LX["reserved"].get(val, 'NAME')
        if typ == 'NEWLINE' and val != ';' and depth > 0:
            continue
        d0 = depth
        if typ in ('LPAREN', 'LBRACKET', 'LBRACE'):
            depth += 1
        elif typ in ('RPAREN', 'RBRACKET', 'RBRACE'):
            depth -= 1
        out.append((typ, val, start, pos, d0, depth))
    return out
