import sys, os; sys.path.insert(0, os.getcwd())

from decimal import Decimal
from fractions import Fraction

import smartquery
from smartquery import SqParser

assert smartquery.__file__.startswith(os.getcwd()), smartquery.__file__

parser = SqParser()

# ordinary comparisons are fine with and without the change
assert parser.eval('0.1 + 0.2 == 0.3') is True
assert parser.eval('2 <= 2') is True
assert parser.eval('0.1 + 0.2 <= 0.3') is True
assert parser.eval('1.5 < 2.25') is True
assert parser.eval('-1.5 > -2.25') is True

# Comparisons must agree with the exact rational order.  The operands below are
# numerically EQUAL but carry a different number of fraction digits
# (0.5 + 0.5 is 1.0, 99.50 + 0.50 is 100.00, 2.5 * 2 is 5.0, ...).
cases = [
    ('0.5 + 0.5', '1'),
    ('99.50 + 0.50', '100'),
    ('2.5 * 2', '5'),
    ('1.0', '1.00'),
    ('0.30', '0.1 + 0.2'),
    ('-(0.5 + 0.5)', '-1'),
    ('10 / 4', '2.50'),
]

failures = []
for left, right in cases:
    lv = Fraction(parser.eval(left))
    rv = Fraction(parser.eval(right))
    assert lv == rv, (left, right)  # sanity: the two sides really are the same rational number

    for op, exact in (('<', lv < rv), ('>', lv > rv), ('<=', lv <= rv), ('>=', lv >= rv), ('==', lv == rv)):
        for a, b in ((left, right), (right, left)):
            expr = f'({a}) {op} ({b})'
            got = parser.eval(expr)
            if got is not exact:
                failures.append((expr, got, exact))

for f in failures:
    print('comparison disagrees with exact order: %s -> %r, expected %r' % f)

assert not failures, f'{len(failures)} comparisons disagree with the exact rational order'
print('OK')
