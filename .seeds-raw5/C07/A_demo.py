import sys, os; sys.path.insert(0, os.getcwd())

import smartquery
from smartquery import SqParser

assert smartquery.__file__.startswith(os.getcwd()), smartquery.__file__

p = SqParser()

# sorted(list, key, reverse): Python semantics keep elements with EQUAL keys in their original
# order even when reverse=True (a reversed sort is not the reversal of the ascending sort).
src = "sorted(['bb', 'a', 'cc', 'd', 'ee'], w => len(w), True)"
expected = sorted(['bb', 'a', 'cc', 'd', 'ee'], key=len, reverse=True)   # ['bb', 'cc', 'ee', 'a', 'd']
got = p.eval(src, names={})
assert got == expected, (src, got, expected)

# same through host names and a multi-line program, pairs tied on the sort key
names = {'rows': [['x', 1], ['y', 2], ['z', 1], ['w', 2]]}
src = "best = sorted(rows, r => r[1], True)\nmap(best, r => r[0])"
got = p.eval(src, names=names)
assert got == ['y', 'w', 'x', 'z'], got
assert names['best'] == [['y', 2], ['w', 2], ['x', 1], ['z', 1]], names['best']

# dicts: order of the keys of the sorted dict (ties on the value)
got = p.eval("keys(sorted({'a': 1, 'b': 2, 'c': 1, 'd': 2}, (k, v) => v, True))", names={})
assert got == ['b', 'd', 'a', 'c'], got

# without ties nothing changes
assert p.eval("sorted([3, 1, 2], None, True)", names={}) == [3, 2, 1]
print('ok')
