import sys, os; sys.path.insert(0, os.getcwd())
import signal
import time

import smartquery
assert smartquery.__file__.startswith(os.getcwd()), smartquery.__file__
from smartquery import SqParser

BOUND = 1.0          # generous: 50 ms timeout + linear work is far below this
GUARD = 4            # hard stop so the demo itself never hangs

sq = SqParser()

# a pattern that backtracks catastrophically in the `regex` module, and its adversarial subject
EVIL_P = r'(a|aa)+$'
EVIL_S = 'a' * 60 + '!'


class Hung(Exception):
    pass


def _alarm(*_):
    raise Hung()


signal.signal(signal.SIGALRM, _alarm)


def timed(expr, names):
    t0 = time.perf_counter()
    signal.alarm(GUARD)
    try:
        sq.eval(expr, names=names)
        outcome = 'result'
    except Hung:
        outcome = 'HUNG (killed by the demo after %d s)' % GUARD
    except Exception as e:   # TimeoutError is the expected, acceptable outcome
        outcome = type(e).__name__
    finally:
        signal.alarm(0)
    return time.perf_counter() - t0, outcome


# step 1: a script (or several) calls match_all with malformed patterns - each call just raises
for bad in ['(', '[a-', '(?P<x', 'a{2,1}', '*a', '(?<=a+', '\\', ')']:
    try:
        sq.eval('match_all(s, p)', names={'s': 'some text', 'p': bad})
    except Exception:
        pass
    else:
        raise SystemExit('expected an error for pattern %r' % bad)

# step 2: now the three builtins meet a catastrophic pattern
worst = 0.0
for fn in ('match', 'match_groups', 'match_all'):
    elapsed, outcome = timed('%s(s, p)' % fn, {'s': EVIL_S, 'p': EVIL_P})
    print('%-12s %-45s %.3f s' % (fn, outcome, elapsed))
    worst = max(worst, elapsed)

assert worst < BOUND, 'regex builtin kept the host busy for %.2f s (bound %.2f s)' % (worst, BOUND)
print('ok')
