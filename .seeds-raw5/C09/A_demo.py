import sys, os; sys.path.insert(0, os.getcwd())

import smartquery
assert smartquery.__file__.startswith(os.getcwd()), smartquery.__file__

from smartquery import SqParser

parser = SqParser()


def run(expr):
    log = []

    def p(tag, value):
        log.append(tag)
        return value

    res = parser.eval(expr, names={'p': p})
    return res, log


# Every element of a list literal is an operand of list(): it must be evaluated exactly once,
# left to right, before the `in` / `not in` operation is applied - no matter where the match is.
res, log = run('p("x", 1) in [p("a", 1), p("b", 2), p("c", 3)]')
assert res is True, res
assert log == ['x', 'a', 'b', 'c'], log

res, log = run('p("x", 2) not in [p("a", 1), p("b", 2), p("c", 3),]')
assert res is False, res
assert log == ['x', 'a', 'b', 'c'], log

# no match: all evaluated (holds with and without the change)
res, log = run('p("x", 9) in [p("a", 1), p("b", 2)]')
assert res is False and log == ['x', 'a', 'b'], (res, log)

# an element after the match that raises must still raise
def boom():
    raise RuntimeError('boom')

try:
    parser.eval('1 in [1, boom()]', names={'boom': boom})
except RuntimeError:
    pass
else:
    raise AssertionError('boom() after the matching element was never evaluated')

print('OK')
