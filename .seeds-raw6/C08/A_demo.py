import sys, os; sys.path.insert(0, os.getcwd())

import smartquery
from smartquery import SqParser

assert smartquery.__file__.startswith(os.getcwd()), smartquery.__file__

p = SqParser()

# sanity: the headline example and plain literal comparisons
assert p.eval('0.1 + 0.2 == 0.3') is True
assert p.eval('0.1 + 0.2 != 0.3') is False
assert p.eval('0.30000000000000001 == 0.3') is False

# equality between a literal and a *computed* number must agree with the exact rational order
# (0.1 + 0.2 is exactly 0.3, which differs from 0.30000000000000001)
assert p.eval('0.1 + 0.2 == 0.30000000000000001') is False
assert p.eval('0.1 + 0.2 != 0.30000000000000001') is True

# 10^16 + 1 is an exact 17 digit integer, not 10^16
assert p.eval('10000000000000000 + 1 == 10000000000000000') is False
assert p.eval('10000000000000001 == 10000000000000000 + 1') is True
assert p.eval('10000000000000001 * 1 != 10000000000000000') is True

# division result and an augmented-assignment result against literals
assert p.eval('1 / 8 == 0.1250000000000000000001') is False
assert p.eval('x = 0.1; x += 0.2; x == 0.3000000000000000000000000001') is False

print('ok')
