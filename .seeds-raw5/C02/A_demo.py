import sys, os; sys.path.insert(0, os.getcwd())
from decimal import Decimal
import types

import smartquery
from smartquery import SqParser
from smartquery.functions import FUNCTIONS

assert smartquery.__file__.startswith(os.getcwd()), smartquery.__file__

BUILTINS = set(map(id, FUNCTIONS.values()))


def is_plain(v, depth=0):
    if v is None or isinstance(v, (bool, int, float, Decimal, str)):
        return True
    if isinstance(v, slice):
        return all(is_plain(x) for x in (v.start, v.stop, v.step))
    if type(v) in (list, tuple):
        return all(is_plain(x, depth + 1) for x in v)
    if type(v) is dict:
        return all(is_plain(k) and is_plain(x, depth + 1) for k, x in v.items())
    if id(v) in BUILTINS:
        return True          # one of the language's own builtin functions
    if isinstance(v, types.FunctionType) and v.__qualname__.startswith('LambdaOp.eval'):
        return True          # a lambda defined by the program
    return False


parser = SqParser()

# the host binds only plain data; every program either fails or yields plain data
PROGRAMS = [
    "dict()",
    "dict([['a', 1]])",
    "{'a': 1}",
    "dict['a']",                       # subscripting the 'dict' builtin
    "__getitem__(dict, 1)",
    "x = dict['k']; x",                # ... and storing the result in a variable
    "[dict[1], 2]",
    "map([1, 2], v => dict[v])",
]

bad = []
for prog in PROGRAMS:
    names = {'n': Decimal(1), 's': 'text'}
    try:
        res = parser.eval(prog, names=names)
    except Exception:
        continue                        # refusing the program is fine
    if not is_plain(res):
        bad.append((prog, 'returned', res, type(res)))
    for k, v in names.items():
        if not is_plain(v):
            bad.append((prog, f'stored in {k}', v, type(v)))

for b in bad:
    print('NON-PLAIN VALUE:', b)

assert not bad, f'{len(bad)} program(s) obtained a non-plain object'
print('ok: only plain data')
