import sys, os; sys.path.insert(0, os.getcwd())

import smartquery
assert smartquery.__file__.startswith(os.getcwd()), smartquery.__file__

from smartquery import SqParser
from smartquery.exceptions import ParserError

parser = SqParser()


class Probes(dict):
    """ names mapping whose entries are probes: every lookup is logged, 'raising' probes raise on lookup """
    def __init__(self, values, raising, log):
        super().__init__(values)
        self.raising = raising
        self.log = log

    def __contains__(self, k):
        return k in self.raising or super().__contains__(k)

    def __getitem__(self, k):
        if k in self.raising:
            self.log.append(k)
            raise KeyError(k)   # NameOp turns a failing lookup into ParserError('Undefined variable ...')
        v = super().__getitem__(k)
        if not callable(v):
            self.log.append(k)
        return v


def run(expr, values, raising=()):
    log = []
    try:
        res = parser.eval(expr, names=Probes(values, set(raising), log))
        return ('value', res), log
    except ParserError as e:
        return ('raised', str(e)), log


# `x if c else y` evaluates c and then exactly one branch; if c raises, NO branch may be evaluated
# and the error must propagate.
out, log = run('t if c else e', {'t': 1, 'e': 2}, raising=['c'])
assert out[0] == 'raised', (out, log)
assert log == ['c'], log

# same with the raising probe deeper inside the condition
out, log = run('t if (a and c) else e', {'a': 1, 't': 1, 'e': 2}, raising=['c'])
assert out[0] == 'raised', (out, log)
assert log == ['a', 'c'], log

# plain undefined name as the condition
out, log = run('t if nope else e', {'t': 1, 'e': 2})
assert out[0] == 'raised', (out, log)
assert log == [], log

# sanity (same with and without the change): non-raising conditions, raising branches
assert run('t if c else e', {'c': 1, 't': 1, 'e': 2}) == (('value', 1), ['c', 't'])
assert run('t if c else e', {'c': 0, 't': 1, 'e': 2}) == (('value', 2), ['c', 'e'])
out, log = run('t if c else e', {'c': 0, 't': 1}, raising=['e'])
assert out[0] == 'raised' and log == ['c', 'e'], (out, log)

print('OK')
