import re
from sqv.driver import Obligation
from sqv.props.c06 import lrc_precheck, both_prechecks, lxc_obligations, lrc_obligations

CANDIDATES = ['a', 'ab', '_1', '%a b%', '%.%', 'if', '1', '12', '1.5', '"a"', "'a'", 'r"a"', '"a\\\nb"', "'\\\n'", '"\\n"', '""',
              '# c', '#', '#a;b', '(', ')', '[', ']', '{', '}', '"\\\n\\\n"', 'for', 'x9']


def plan(ctx):
    T = 40 if ctx["tier"] == "quick" else 240
    from smartquery import lexer
    obs = [Obligation("lexer.newline_step", "xh", "c20", "newline_step", timeout=T,
                      bounds="line >= 1, bracket depth >= 0 unbounded; separator in {LF, CRLF, ;}",
                      desc="t_NEWLINE from an arbitrary (line, depth): line += number of line feeds; token iff ';' or depth 0")]
    uncovered = []
    for name in sorted(n for n in dir(lexer) if n.startswith('t_') and callable(getattr(lexer, n))):
        if name in ('t_error', 't_NEWLINE'):
            continue
        rx = getattr(lexer, name).__doc__
        if not rx:
            uncovered.append(f"lexer rule {name} has no regex docstring")
            continue
        pool = [c for c in CANDIDATES if re.compile(rx, re.VERBOSE).fullmatch(c)]
        if not pool:
            uncovered.append(f"lexer rule {name}: no candidate text matches its regex")
            continue
        obs.append(Obligation(f"lexer.rule_step.{name}", "xh", "c20", "rule_step", param={"rule": name, "pool": pool}, timeout=T,
                              bounds=f"line, depth unbounded; matched text from {pool!r} (index symbolic)",
                              desc=f"{name}: line counter advances by the line feeds in the matched text"))
    obs.append(Obligation("p_error.message", "xh", "c20", "p_error_message", timeout=T * 4, extra={"format_stub": False},
                          bounds="token line and lexer line 1..4 (formatted, hence bounded), token from 8 (type, text) samples incl. NUMBER (Decimal value) and the ';' separator",
                          desc="message contains the token text and the token's OWN line"))
    obs.append(Obligation("p_error.eof", "xh", "c20", "p_error_eof", timeout=T, extra={"format_stub": False}, bounds="-",
                          desc="p_error(None) reports an unexpected end of input"))
    obs += lrc_obligations(ctx, ["error_token"], prefix="lrc.")
    from sqv.harness import txt
    for i, prog in enumerate(txt.PROGRAMS):
        if len(prog) > 600:
            continue          # (the program with hundreds of blank statements is for the layout rewrites of C15 only)
        obs.append(Obligation(f"txt.error_line.p{i}", "xh", "txt", "error_line", param={"program": i}, timeout=T * 6,
                              bounds="one of 20 concrete programs (strings and comments containing brackets/quotes/#, nested multi-line literals, %..% names); "
                                     "stray text, separator variant, truncation, earlier list_names() and parse cache symbolic (finite domain chosen by the solver); every token boundary then damaged natively on the real lexer+parser within the path",
                              desc=f"program {i}: stray text from 37 samples (brackets, separators, operators, zero / empty literals, reserved words ...) inserted at (or text truncated at) every token boundary, under LF / CRLF / ; variants: message names the reported token and 1 + number of line feeds before it"))
    obs += lxc_obligations(ctx, ['linefeeds'])
    return {
        "precheck": both_prechecks,
        "obligations": obs, "uncovered": uncovered,
        "explanation": "CrossHair (z3) symbolic execution of the real lexer rule functions from an arbitrary (line, bracket depth) "
                       "state satisfying the invariant 'lineno = 1 + line feeds before the offset', and of p_error.",
        "functions": ["smartquery.lexer.t_*", "smartquery.rules.p_error"],
        "files": ["smartquery/lexer.py", "smartquery/rules.py", "smartquery/sq_parser.py"],
        "bounds": "line/depth unbounded; matched texts from a concrete pool filtered by each rule's own regex",
        "outside": "which token reaches p_error (LRC) and character-level texts (LXC)",
        "stubs": ["LexToken / lexer stand-ins"],
        "assumptions": ["PLY stamps tok.lineno = lexer.lineno before calling the rule function"],
        "trusted": ["CrossHair 0.0.110", "z3"],
    }
