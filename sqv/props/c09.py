from sqv.driver import Obligation
from sqv import nodes


def plan(ctx):
    T = 30 if ctx["tier"] == "quick" else 180
    obs, uncovered = [], []
    for p in nodes.kind_params():
        oid = f"step.{p['kind']}" + (f".{p['op']}" if p['op'] else "")
        try:
            nodes.build(p["kind"], p["op"], [], [0, 0, 0, 0], 1)
        except nodes.Uncovered as e:
            uncovered.append(f"node kind not constructible by the generic builder: {e}")
            continue
        obs.append(Obligation(oid, "xh", "c09", "node_order", param=p, timeout=T,
                              bounds="list-typed child fields 0..2 (dict: 0..2 pairs); child truth values symbolic; any one child may raise",
                              desc="real node, logging stub children: and/or/if-else lazy and yield the deciding operand; every "
                                   "other child exactly once in field order, complete before the operation; failing child => prefix"))
    obs.append(Obligation("step.CallOp.undefined", "xh", "c09", "node_order", param={"kind": "CallOp", "op": None, "unbound": True}, timeout=T,
                          bounds="0..2 arguments, any one may raise", desc="call of an UNDEFINED function: arguments evaluated once, in order, first; then ParserError"))
    from sqv.harness import c09 as h
    for i, (text, _) in enumerate(h.TEMPLATES):
        obs.append(Obligation(f"api.t{i}", "xh", "c09", "api_order", param={"t": i}, timeout=T,
                              bounds="host ints a,b unbounded, c bool; the failing probe index symbolic 0..4",
                              desc=f"SqParser.eval({text!r}) with logging host probes"))
    return {
        "obligations": obs, "uncovered": uncovered,
        "explanation": "CrossHair (z3) symbolic execution of every node class's real eval with logging stub children "
                       "(truth values and the failing child symbolic), plus concrete templates through SqParser.eval with "
                       "symbolic host values deciding the branches.",
        "functions": ["smartquery.ast_ops.%s.eval" % k for k in nodes.node_kinds()] + ["smartquery.sq_parser.SqParser.eval"],
        "files": ["smartquery/ast_ops.py", "smartquery/rules.py", "smartquery/functions.py"],
        "bounds": "<= 2 elements per list-typed child field; templates fixed (16 shapes); values unbounded",
        "outside": "larger expression shapes follow by structural induction (each node only sees its children through child.eval)",
        "stubs": ["stub child nodes", "host probe functions"],
        "assumptions": ["structural induction over syntax trees", "CrossHair's models of int/bool/list"],
        "trusted": ["CrossHair 0.0.110", "z3"],
    }
