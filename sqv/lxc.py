"""LXC: the lexer's master regular expression (as PLY builds it from the snapshot's t_* rules) over SYMBOLIC
characters, with Python's leftmost-first backtracking semantics unfolded exactly inside a window of W characters.

Characters are variables over equivalence classes of code points (two code points are equivalent when every atom of
the master regex -- literals, classes, categories, `.` -- and the ignore set treat them alike; classes are computed by
evaluating the atoms with the real `re` module over all code points)."""
import re
import sys
import time

import z3

try:
    import re._parser as sre_parse
    import re._constants as sre_c
except ImportError:                                   # pragma: no cover
    import sre_parse
    import sre_constants as sre_c

EOF = 'EOF'


WORD_ITEM = (sre_c.IN, [(sre_c.CATEGORY, sre_c.CATEGORY_WORD)])
WORD_KEY = ('in', ((str(sre_c.CATEGORY), sre_c.CATEGORY_WORD),))


class Unsupported(Exception):
    pass


class Lexer:
    """regex structure + character classes of the snapshot's lexer"""

    def __init__(self, plylexer, reference=None):
        """reference: optional dict(pattern, flags, ignore, groups, returns_function) of a second rule set over the same
        characters (spec/grammar_ref.json); its atoms take part in the partition of the code points"""
        res = plylexer.lexstatere['INITIAL']
        if len(res) != 1:
            raise Unsupported("master regex split into %d parts" % len(res))
        self.rx, names = res[0]
        self.pattern = self.rx.pattern
        self.flags = plylexer.lexreflags
        self.ignore = plylexer.lexstateignore['INITIAL']
        tree = sre_parse.parse(self.pattern, self.flags)
        top = list(tree)
        if len(top) != 1 or top[0][0] is not sre_c.BRANCH:
            raise Unsupported("master regex is not a top-level alternation")
        self.rules = []                      # (name, items) in priority order
        for alt in top[0][1][1]:
            alt = list(alt)
            if len(alt) != 1 or alt[0][0] is not sre_c.SUBPATTERN:
                raise Unsupported("top-level alternative is not a single named group")
            g = alt[0][1][0]
            entry = names[g]
            self.rules.append((entry[1], list(alt[0][1][3]), entry[0] is not None))
        self.atoms = {}
        for _, items, _ in self.rules:
            self._collect(items)
        self.ref_rules = None
        self.ref_ignore = None
        if reference is not None:
            self.ref_rules = self._rules_of(reference["pattern"], reference["flags"],
                                            [None if g is None else (reference["returns_function"][i], g) for i, g in enumerate(reference["groups"])])
            self.ref_ignore = reference["ignore"]
            for _, items, _ in self.ref_rules:
                self._collect(items)
        self._classes()

    def _rules_of(self, pattern, flags, names):
        tree = sre_parse.parse(pattern, flags)
        top = list(tree)
        if len(top) != 1 or top[0][0] is not sre_c.BRANCH:
            raise Unsupported("master regex is not a top-level alternation")
        rules = []
        for alt in top[0][1][1]:
            alt = list(alt)
            if len(alt) != 1 or alt[0][0] is not sre_c.SUBPATTERN:
                raise Unsupported("top-level alternative is not a single named group")
            entry = names[alt[0][1][0]]
            rules.append((entry[1], list(alt[0][1][3]), bool(entry[0])))
        return rules

    # ---- atoms ------------------------------------------------------------------------------------------------
    def _akey(self, item):
        op, av = item
        if op is sre_c.LITERAL:
            return ('lit', av)
        if op is sre_c.NOT_LITERAL:
            return ('notlit', av)
        if op is sre_c.ANY:
            return ('any',)
        if op is sre_c.IN:
            return ('in', tuple((str(o), a if not isinstance(a, tuple) else tuple(a)) for o, a in av))
        return None

    def _collect(self, items):
        for item in items:
            op, av = item
            k = self._akey(item)
            if k is not None:
                self.atoms.setdefault(k, item)
            elif op is sre_c.SUBPATTERN:
                self._collect(list(av[3]))
            elif op is sre_c.BRANCH:
                for a in av[1]:
                    self._collect(list(a))
            elif op in (sre_c.MAX_REPEAT, sre_c.MIN_REPEAT):
                self._collect(list(av[2]))
            elif op is sre_c.AT and av in (sre_c.AT_BOUNDARY, sre_c.AT_NON_BOUNDARY):
                # \b / \B: the partition must separate word characters from the others
                self.atoms.setdefault(WORD_KEY, WORD_ITEM)
            else:
                raise Unsupported("regex construct %s" % (op,))

    def _atom_regex(self, item):
        op, av = item
        esc = lambda c: re.escape(chr(c))
        if op is sre_c.LITERAL:
            return esc(av)
        if op is sre_c.NOT_LITERAL:
            return '[^' + esc(av) + ']'
        if op is sre_c.ANY:
            return '.'
        parts = []
        neg = False
        for o, a in av:
            if o is sre_c.NEGATE:
                neg = True
            elif o is sre_c.LITERAL:
                parts.append(esc(a))
            elif o is sre_c.RANGE:
                parts.append(esc(a[0]) + '-' + esc(a[1]))
            elif o is sre_c.CATEGORY:
                parts.append({sre_c.CATEGORY_DIGIT: r'\d', sre_c.CATEGORY_NOT_DIGIT: r'\D', sre_c.CATEGORY_WORD: r'\w',
                              sre_c.CATEGORY_NOT_WORD: r'\W', sre_c.CATEGORY_SPACE: r'\s', sre_c.CATEGORY_NOT_SPACE: r'\S'}[a])
            else:
                raise Unsupported("class item %s" % (o,))
        return '[' + ('^' if neg else '') + ''.join(parts) + ']'

    def _classes(self):
        """partition all code points by their membership vector over the atoms (+ ignore set)"""
        universe = ''.join(chr(c) for c in range(sys.maxunicode + 1))
        keys = sorted(self.atoms, key=str)
        sig = bytearray(len(universe) * 0)
        vec = [0] * len(universe)
        flagsx = self.flags & ~re.VERBOSE
        for bit, k in enumerate(keys):
            rx = re.compile(self._atom_regex(self.atoms[k]), flagsx)
            for m in rx.finditer(universe):
                vec[m.start()] |= (1 << bit)
        ign_bit = len(keys)
        for ch in self.ignore:
            vec[ord(ch)] |= (1 << ign_bit)
        for ch in (self.ref_ignore or ''):
            vec[ord(ch)] |= (1 << (ign_bit + 1))
        classes = {}
        for cp, v in enumerate(vec):
            classes.setdefault(v, []).append(cp)
        self.keys = keys
        self.classes = []                      # list of (signature, representative char, size)
        for v, cps in sorted(classes.items(), key=lambda kv: kv[1][0]):
            printable = [c for c in cps if 33 <= c < 127]
            rep = printable[0] if printable else cps[0]
            self.classes.append((v, chr(rep), len(cps)))
        self.member = {}                       # atom key -> set of class indices
        for bit, k in enumerate(keys):
            self.member[k] = {i for i, (v, _, _) in enumerate(self.classes) if v & (1 << bit)}
        self.ign_classes = {i for i, (v, _, _) in enumerate(self.classes) if v & (1 << ign_bit)}
        self.ref_ign_classes = {i for i, (v, _, _) in enumerate(self.classes) if v & (1 << (ign_bit + 1))}
        self.class_of = {}
        for i, (v, rep, _) in enumerate(self.classes):
            self.class_of[rep] = i

    def cls(self, ch):
        """class index of a concrete character"""
        v = 0
        flagsx = self.flags & ~re.VERBOSE
        for bit, k in enumerate(self.keys):
            if re.compile(self._atom_regex(self.atoms[k]), flagsx).fullmatch(ch):
                v |= (1 << bit)
        if ch in self.ignore:
            v |= (1 << len(self.keys))
        if ch in (self.ref_ignore or ''):
            v |= (1 << (len(self.keys) + 1))
        for i, (cv, _, _) in enumerate(self.classes):
            if cv == v:
                return i
        raise KeyError(ch)


class TextChart:
    """symbolic text c[0..W-1] (c[k] = EOF beyond its length) and the lexer's raw matches over it"""

    def __init__(self, lx, W, name='t', chars=None, use_reference=False):
        self.lx, self.W, self.name = lx, W, name
        self.rules = lx.ref_rules if use_reference else lx.rules
        self.ign = lx.ref_ign_classes if use_reference else lx.ign_classes
        self.ncls = len(lx.classes)
        self.eof = self.ncls
        self.bits = max(1, self.ncls.bit_length())
        self.c = chars if chars is not None else [z3.BitVec(f"{name}_c{k}", self.bits) for k in range(W + 1)]
        self.base = []
        if chars is None:
            for k in range(W):
                self.base.append(z3.ULE(self.c[k], self.eof))
                self.base.append(z3.Implies(self.c[k] == self.eof, self.c[k + 1] == self.eof))
            self.base.append(self.c[W] == self.eof)
        self.defs = []
        self._m = {}
        self._cand = {}
        self._tok = {}
        self._at = {}
        self._n = 0

    # ---- helpers ------------------------------------------------------------------------------------------
    def name_(self, body, tag):
        if body is None or body is True:
            return body
        self._n += 1
        v = z3.Bool(f"{self.name}_{tag}_{self._n}")
        self.defs.append(v == body)
        return v

    @staticmethod
    def and_(*xs):
        if any(x is None for x in xs):
            return None
        xs = [x for x in xs if x is not True]
        if not xs:
            return True
        return z3.And(*xs) if len(xs) > 1 else xs[0]

    @staticmethod
    def or_(xs):
        xs = [x for x in xs if x is not None]
        if not xs:
            return None
        if any(x is True for x in xs):
            return True
        return z3.Or(*xs) if len(xs) > 1 else xs[0]

    @staticmethod
    def not_(x):
        if x is None:
            return True
        if x is True:
            return None
        return z3.Not(x)

    def in_classes(self, k, classes):
        if k >= self.W:
            return None
        classes = sorted(classes)
        if not classes:
            return None
        return self.or_([self.c[k] == i for i in classes])

    def is_char(self, k, ch):
        return self.in_classes(k, {self.lx.cls(ch)})

    def atom(self, item, k):
        return self.in_classes(k, self.lx.member[self.lx._akey(item)])

    # ---- backtracking unfolding ---------------------------------------------------------------------------
    def match(self, items, pos):
        """ordered candidates [(end, cond)] of the item sequence starting at pos (Python re priority order)"""
        items = tuple(items)
        key = (items_key(items), pos)
        if key in self._m:
            return self._m[key]
        if not items:
            r = [(pos, True)]
        else:
            first, rest = items[0], items[1:]
            op, av = first
            r = []
            if self.lx._akey(first) is not None:
                c = self.atom(first, pos)
                if c is not None:
                    for e, c2 in self.match(rest, pos + 1):
                        x = self.and_(c, c2)
                        if x is not None:
                            r.append((e, x))
            elif op is sre_c.SUBPATTERN:
                r = self.match(tuple(av[3]) + rest, pos)
            elif op is sre_c.BRANCH:
                for alt in av[1]:
                    r = r + self.match(tuple(alt) + rest, pos)
            elif op in (sre_c.MAX_REPEAT, sre_c.MIN_REPEAT):
                lo, hi, body = av[0], av[1], tuple(av[2])
                r = self.repeat(op is sre_c.MAX_REPEAT, lo, hi, body, rest, pos, 0)
            elif op is sre_c.AT and av in (sre_c.AT_BOUNDARY, sre_c.AT_NON_BOUNDARY):
                words = self.lx.member[WORD_KEY]
                wp = self.in_classes(pos - 1, words) if pos > 0 else None
                wn = self.in_classes(pos, words)
                tz = lambda x: z3.BoolVal(False) if x is None else (z3.BoolVal(True) if x is True else x)
                c = z3.Xor(tz(wp), tz(wn))
                if av is sre_c.AT_NON_BOUNDARY:
                    c = z3.Not(c)
                c = z3.simplify(c)
                if z3.is_false(c):
                    r = []
                else:
                    c = True if z3.is_true(c) else c
                    for e, c2 in self.match(rest, pos):
                        x = self.and_(c, c2)
                        if x is not None:
                            r.append((e, x))
            else:
                raise Unsupported(str(op))
        if len(r) > 24:
            r = [(e, self.name_(c, "m")) for e, c in r]
        self._m[key] = r
        return r

    def repeat(self, greedy, lo, hi, body, rest, pos, count):
        key = ('rep', greedy, lo, hi if hi is not sre_c.MAXREPEAT else -1, items_key(body), items_key(rest), pos, (min(count, lo) if hi is sre_c.MAXREPEAT else count))
        if key in self._m:
            return self._m[key]
        more = []
        if (hi is sre_c.MAXREPEAT or count < hi) and pos < self.W:
            for e1, c1 in self.match(body, pos):
                if e1 <= pos:
                    continue
                for e2, c2 in self.repeat(greedy, lo, hi, body, rest, e1, count + 1):
                    x = self.and_(c1, c2)
                    if x is not None:
                        more.append((e2, x))
        stop = self.match(rest, pos) if count >= lo else []
        r = (more + stop) if greedy else (stop + more)
        self._m[key] = r
        return r

    # ---- one raw match at a position -----------------------------------------------------------------------
    def rule_cands(self, ri, k):
        key = (ri, k)
        if key not in self._cand:
            self._cand[key] = [(e, c) for e, c in self.match(self.rules[ri][1], k) if e > k]
        return self._cand[key]

    def has(self, ri, k):
        return self.or_([c for _, c in self.rule_cands(ri, k)])

    def chosen_end(self, ri, k):
        """{end: condition that this rule, if it is the winner at k, ends at `end`} (first true candidate in order)"""
        key = ('end', ri, k)
        if key in self._cand:
            return self._cand[key]
        out = {}
        none_before = True
        for e, c in self.rule_cands(ri, k):
            here = self.and_(none_before, c)
            if here is not None:
                out.setdefault(e, []).append(here)
            nb = self.and_(none_before, self.not_(c))
            none_before = self.name_(nb, "nb") if nb is not None else None
            if none_before is None:
                break
        out = {e: self.name_(self.or_(v), "ce") for e, v in out.items()}
        self._cand[key] = out
        return out

    def tok(self, k, ri, e):
        """the lexer, standing at k on a non-ignored character, matches rule ri up to e"""
        key = (k, ri, e)
        if key in self._tok:
            return self._tok[key]
        ce = self.chosen_end(ri, k).get(e)
        r = None
        if ce is not None:
            earlier = [self.not_(self.has(rj, k)) for rj in range(ri)]
            r = self.and_(self.not_(self.in_classes(k, self.ign)), ce, *earlier)
            r = self.name_(r, "tok")
        self._tok[key] = r
        return r

    def ends(self, k, ri):
        return sorted(self.chosen_end(ri, k))

    def at(self, k):
        """the lexer's position reaches k (start of a match attempt or of an ignored character)"""
        if k in self._at:
            return self._at[k]
        alts = []
        if k == 0:
            alts.append(True)
        else:
            alts.append(self.and_(self.at(k - 1), self.in_classes(k - 1, self.ign)))
            for j in range(k):
                for ri in range(len(self.rules)):
                    t = self.tok(j, ri, k)
                    if t is not None:
                        alts.append(self.and_(self.at(j), t))
        r = self.name_(self.or_(alts), "at")
        self._at[k] = r
        return r

    def lexerr(self, k):
        """illegal character at k: no rule matches there"""
        if k >= self.W:
            return None
        nothing = [self.not_(self.has(ri, k)) for ri in range(len(self.rules))]
        return self.and_(self.at(k), self.c[k] != self.eof, self.not_(self.in_classes(k, self.ign)), *nothing)

    def text_of(self, model):
        out = []
        for k in range(self.W):
            v = model.eval(self.c[k], model_completion=True).as_long()
            if v >= self.ncls:
                break
            out.append(self.lx.classes[v][1])
        return ''.join(out)


_IK = {}


def items_key(items):
    k = id(items)
    r = _IK.get(k)
    if r is None or r[0] is not items:
        r = (items, repr(items))
        _IK[k] = r
    return r[1]
