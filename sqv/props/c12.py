from sqv.driver import Obligation
from sqv import nodes


def plan(ctx):
    T = 40 if ctx["tier"] == "quick" else 240
    from sqv.harness import c12 as h
    obs = []
    for p in nodes.kind_params():
        if p["kind"] in ("AssignOp", "ShortOp") and p["op"] != '@@':
            oid = f"routing.{p['kind']}" + (f".{p['op']}" if p['op'] else "")
            obs.append(Obligation(oid, "xh", "c12", "routing_node", param=p, timeout=T, bounds="opaque sentinel value",
                                  desc="with copy.deepcopy replaced by a tagging stub: what is stored / combined is the tagged copy"))
    for p in nodes.kind_params():
        if p["kind"] in ("AssignOp", "ShortOp", "NoOp") or (p["op"] is not None and p["op"] not in ('+', 'and', 'or', 'not')):
            continue
        for target in ("assign", "short"):
            oid = f"rhs.{target}.{p['kind']}" + (f".{p['op']}" if p['op'] else "")
            try:
                nodes.build(p["kind"], p["op"], [], [0, 0, 0, 0], 1)
            except nodes.Uncovered:
                continue
            obs.append(Obligation(oid, "xh", "c12", "routing_rhs", param={**p, "target": target}, timeout=T,
                                  bounds="right-hand side: one real node of this kind with 1..2 stub children returning mutable sentinels",
                                  desc="whatever the right-hand-side node evaluates to, the tagged deep copy of THAT object is stored / combined"))
    obs.append(Obligation("routing.__setitem__", "xh", "c12", "routing_setitem", param={"fn": "__setitem__"}, timeout=T,
                          bounds="list or dict container (symbolic), key 0..1 as int or str", desc="_set stores deepcopy(value)"))
    for op in ('+=', '-=', '*=', '/='):
        obs.append(Obligation(f"routing.__setitem_with_op__.{op}", "xh", "c12", "routing_setitem",
                              param={"fn": "__setitem_with_op__", "op": op}, timeout=T,
                              bounds="list or dict container (symbolic), key 0..1", desc="_set_with_op combines with deepcopy(value)"))
    for i, text in enumerate(h.EFFECT):
        obs.append(Obligation(f"effect.t{i}", "xh", "c12", "effect", param={"t": i}, timeout=T,
                              bounds="nested list [[v0,v1],[v2]] / dict {'p':[v0],'q':v1} with symbolic leaves (also inside a host structure deepcopy cannot copy), symbolic mutation index, "
                                     "symbolic choice of host-side mutation afterwards",
                              desc=f"eval({text!r}): host objects unchanged; later host mutation invisible through stored values"))
    for i, text in enumerate(h.TWICE):
        obs.append(Obligation(f"twice.t{i}", "xh", "c12", "twice_cached", param={"t": i}, timeout=T,
                              bounds="the text evaluated twice for two names mappings, with / without a parse cache; the host mutates what the first evaluation stored (3 ways) in between",
                              desc=f"eval({text!r}) twice: the second evaluation stores fresh values equal to a fresh parser's, never the first evaluation's objects"))
    obs.append(Obligation("direct", "xh", "c12", "direct_mutation", param={"text": "a[i].push(w)"}, timeout=T,
                          bounds="2x1 nested list", desc="a direct mutator is visible (non-vacuity)"))
    return {
        "obligations": obs,
        "explanation": "CrossHair (z3): routing obligations with copy.deepcopy replaced by a tagging stub in ast_ops/functions, and "
                       "effect obligations with the real deepcopy on real nested containers with symbolic leaves and symbolic mutation sites.",
        "functions": ["smartquery.ast_ops.AssignOp.eval", "ShortOp.eval", "smartquery.functions._set", "_set_with_op"],
        "files": ["smartquery/ast_ops.py", "smartquery/functions.py"],
        "bounds": "container shapes <= 2x2; one mutation per side",
        "outside": "deeper nesting relies on copy.deepcopy's contract",
        "stubs": ["tagging deepcopy stub (routing obligations only)"],
        "assumptions": ["copy.deepcopy returns a structure-equal, identity-disjoint copy"],
        "trusted": ["CrossHair 0.0.110", "z3"],
    }
