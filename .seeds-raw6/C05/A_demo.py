import sys, os; sys.path.insert(0, os.getcwd())
import signal
import time

import smartquery
from smartquery import SqParser

assert smartquery.__file__.startswith(os.getcwd()), smartquery.__file__

# hard stop: if a call hangs, die with a non-zero status instead of waiting for minutes
signal.alarm(60)

BOUND = 1.0  # seconds; the property promises ~50 ms + linear time

parser = SqParser()

# a perfectly ordinary pattern and subject; only the *flag string* is unusual:
# many valid flag letters followed by one character that is not a letter
flags = 'im' * 13 + '!'

worst = 0.0
for func in ('match', 'match_groups', 'match_all'):
    t0 = time.perf_counter()
    try:
        res = parser.eval(f'subject | {func}(pattern, flags)',
                          names={'subject': 'Hello World', 'pattern': r'w\w+', 'flags': flags})
    except Exception as e:  # an error would be fine too, as long as it is quick
        res = e
    dt = time.perf_counter() - t0
    worst = max(worst, dt)
    print(f'{func}: {dt:.3f}s -> {res!r}')

assert worst < BOUND, f'regex builtin took {worst:.2f}s on an 27-character flag string'
print('ok')
