import sys, os; sys.path.insert(0, os.getcwd())

import smartquery
from smartquery import SqParser, ParserError

assert smartquery.__file__.startswith(os.getcwd()), smartquery.__file__

parser = SqParser()

# 1. an earlier, unrelated eval(): the host passes a list that is already over the cap and the
#    program fails (here: with the very overflow error the cap is supposed to produce)
big = list(range(10001))
try:
    parser.eval('big.push(1)', names={'big': big})
except ParserError:
    pass
else:
    raise AssertionError('push on a 10001-element list must fail')
assert len(big) == 10001

# 2. a later eval() with a list of exactly 10000 elements: every element-adding operation must fail
#    with a ParserError and leave the list unchanged
for program in ('arr.push(1)', 'arr.insert(0, 1)', 'arr += [1]', 'x = arr + [1]'):
    names = {'arr': list(range(10000))}
    try:
        parser.eval(program, names=names)
    except ParserError:
        pass
    else:
        raise AssertionError(
            f'{program!r} on a full list succeeded: len(arr)={len(names["arr"])}, '
            f'len(x)={len(names.get("x", []))}')
    assert len(names['arr']) == 10000, len(names['arr'])

print('ok')
