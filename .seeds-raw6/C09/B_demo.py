import sys, os; sys.path.insert(0, os.getcwd())

import smartquery
from smartquery import SqParser

assert smartquery.__file__.startswith(os.getcwd()), smartquery.__file__

parser = SqParser()


class Boom(Exception):
    pass


def run(expr, values):
    """ evaluates expr with probes p0, p1, ... ; values[i] is returned by (or, if an exception, raised by) p<i> """
    log = []

    def probe(i, v):
        def f():
            log.append(f'p{i}')
            if isinstance(v, BaseException):
                raise v
            return v
        return f

    names = {f'p{i}': probe(i, v) for i, v in enumerate(values)}
    try:
        res = ('ok', parser.eval(expr, names=names))
    except Exception as e:
        res = ('raised', type(e).__name__)
    return res, log


# sanity: distinct keys
assert run('{"a": p0(), "b": p1()}', [1, 2]) == (('ok', {'a': 1, 'b': 2}), ['p0', 'p1'])
# computed keys that happen to coincide
assert run('{p0(): p1(), p2(): p3()}', ['a', 1, 'a', 2]) == (('ok', {'a': 2}), ['p0', 'p1', 'p2', 'p3'])

# every dict value is evaluated exactly once, left to right - also when a later entry has the same literal key
res, log = run('{"a": p0(), "b": p1(), "a": p2()}', [1, 2, 3])
assert res == ('ok', {'a': 3, 'b': 2}), res
assert log == ['p0', 'p1', 'p2'], f'dict value skipped: {log}'

# keys are cast to strings, 1 and "1" are the same key
res, log = run('{1: p0(), "1": p1()}', [1, 2])
assert res == ('ok', {'1': 2}), res
assert log == ['p0', 'p1'], f'dict value skipped: {log}'

# a raising value of an overwritten entry still raises (and stops the evaluation of the rest)
res, log = run('{"k": p0(), "k": p1()}', [Boom(), 2])
assert res == ('raised', 'Boom'), res
assert log == ['p0'], log

# laziness inside the overwritten entry is untouched, the entry itself is evaluated
res, log = run('{"k": p0() and p1(), "k": p2() if p3() else p4()}', [1, 0, 5, 0, 6])
assert res == ('ok', {'k': 6}), res
assert log == ['p0', 'p1', 'p3', 'p4'], log

print('OK')
