"""Character-level obligations over the LXC chart (regex-determined facts about the real lexer rules)."""
import random
import re
import time

import z3

from sqv import lxc


class Ctx:
    def __init__(self, parser, L, slice_name=None, timeout=600):
        self.parser = parser
        self.W = L
        self.timeout = timeout
        import json
        import os
        ref = json.load(open(os.path.join(os.path.dirname(os.path.dirname(os.path.abspath(__file__))), "spec", "grammar_ref.json")))["lexer"]
        self.ref = ref
        self.lx = lxc.Lexer(parser.lex, reference=ref)
        self.rule = {name: i for i, (name, _, _) in enumerate(self.lx.rules)}
        self.word = {i for i, (_, rep, _) in enumerate(self.lx.classes) if re.fullmatch(r'\w', rep)}


def _solve(cons, timeout):
    tac = z3.Then('simplify', 'propagate-values', 'solve-eqs', 'bit-blast', 'sat')
    s = tac.solver()
    s.set("timeout", int(timeout * 1000))
    for c in cons:
        s.add(c)
    t0 = time.time()
    r = s.check()
    return str(r), (s.model() if r == z3.sat else None), time.time() - t0


def _finish(charts, goal, timeout, what):
    cons = []
    for ch in charts:
        cons += ch.base + ch.defs
    rt, _, tsecs = _solve(cons, min(timeout, 120))          # vacuity twin: constraints without the negated property
    r, m, secs = _solve(cons + [goal if goal is not None else z3.BoolVal(False)], timeout)
    out = {"twin": rt, "twin_secs": round(tsecs, 2), "what": what, "W": charts[0].W, "classes": charts[0].ncls, "definitions": len(cons), "secs": round(secs, 2), "state": r}
    if r == 'unsat':
        out["verdict"] = "PROVED"
    elif r == 'sat':
        out["verdict"] = "CEX"
        out["cex"] = {"text": charts[0].text_of(m)}
        for n, ch in enumerate(charts[1:]):
            out["cex"][f"text{n + 2}"] = ch.text_of(m)
        out["call"] = repr(out["cex"])
    else:
        out["verdict"] = "INCONCLUSIVE"
        out["why"] = "solver answered " + r
    return out


def _need(cx, *names):
    missing = [n for n in names if n not in cx.rule]
    if missing:
        raise lxc.Unsupported("lexer has no rule named " + ", ".join(missing))


def q_linefeeds(cx, excludes):
    """every line feed the lexer meets is consumed by the NEWLINE rule alone (LF, CR LF, and ';' as a separator), and no
    other token contains a line feed -- so the line counter only has to be kept by that one rule"""
    _need(cx, 'NEWLINE')
    t = lxc.TextChart(cx.lx, cx.W)
    NL = cx.rule['NEWLINE']
    bad = []
    for k in range(cx.W):
        at = t.at(k)
        if at is None:
            continue
        lf, cr, sc = t.is_char(k, '\n'), t.is_char(k, '\r'), t.is_char(k, ';')
        bad.append(t.and_(at, lf, t.not_(t.tok(k, NL, k + 1))))
        bad.append(t.and_(at, sc, t.not_(t.tok(k, NL, k + 1))))
        if k + 1 < cx.W:
            bad.append(t.and_(at, cr, t.is_char(k + 1, '\n'), t.not_(t.tok(k, NL, k + 2))))
        for ri, (name, _, _) in enumerate(cx.lx.rules):
            if ri == NL:
                continue
            for e in t.ends(k, ri):
                tk = t.tok(k, ri, e)
                inside = t.or_([t.is_char(m, '\n') for m in range(k, e)])
                bad.append(t.and_(at, tk, inside))
    return _finish([t], t.or_(bad), cx.timeout, "a line feed escapes the NEWLINE rule")


def q_names(cx, excludes):
    """%..% names run from one % to the NEXT %; plain names are maximal runs of word characters starting with a non-digit"""
    _need(cx, 'NAME')
    t = lxc.TextChart(cx.lx, cx.W)
    NM = cx.rule['NAME']
    bad = []
    for k in range(cx.W):
        at = t.at(k)
        if at is None:
            continue
        pct = t.is_char(k, '%')
        for e in t.ends(k, NM):
            tk = t.tok(k, NM, e)
            if tk is None:
                continue
            # %-name: closes at the first later %
            shape = t.and_(t.is_char(e - 1, '%') if e - 1 > k else None,
                           *[t.not_(t.is_char(m, '%')) for m in range(k + 1, e - 1)])
            bad.append(t.and_(at, tk, pct, t.not_(shape) if shape is not None else True))
            # plain name: all word characters, and not followed by a word character
            allw = t.and_(*[t.in_classes(m, cx.word) for m in range(k, e)])
            follow = t.in_classes(e, cx.word) if e < cx.W else None
            ok = t.and_(allw, t.not_(follow))
            bad.append(t.and_(at, tk, t.not_(pct), t.not_(ok) if ok is not None else True))
        # a word character that is not a digit at a lexer position always starts a NAME (keywords included: re-typed later)
        digitish = {i for i, (_, rep, _) in enumerate(cx.lx.classes) if re.fullmatch(r'\d', rep)}
        starts = t.and_(at, t.in_classes(k, cx.word - digitish), t.not_(t.is_char(k, 'r')))
        bad.append(t.and_(starts, t.not_(t.or_([t.tok(k, NM, e) for e in t.ends(k, NM)]))))
    return _finish([t], t.or_(bad), cx.timeout, "NAME token does not have the documented extent")


def _linked(cx, b, inserted_class):
    """t2 = t with one character of class `inserted_class` inserted before offset b"""
    t = lxc.TextChart(cx.lx, cx.W, 't')
    t2 = lxc.TextChart(cx.lx, cx.W + 1, 'u')
    link = []
    for k in range(cx.W + 2):
        if k < b:
            link.append(t2.c[k] == t.c[k])
        elif k == b:
            link.append(t2.c[k] == inserted_class)
        else:
            link.append(t2.c[k] == (t.c[k - 1] if k - 1 <= cx.W else t.eof))
    return t, t2, z3.And(link)


def _prefix_differs(cx, t, t2, b, allow_grow_rule=None):
    """some token of t that lies entirely before b is not a token of t2 (same start, rule and end)"""
    alts = []
    for k in range(b):
        for ri in range(len(cx.lx.rules)):
            for e in t.ends(k, ri):
                if e > b:
                    continue
                a = t.and_(t.at(k), t.tok(k, ri, e))
                if a is None:
                    continue
                same = t2.and_(t2.at(k), t2.tok(k, ri, e))
                if allow_grow_rule is not None and ri == allow_grow_rule and e == b:
                    grown = t2.and_(t2.at(k), t2.tok(k, ri, e + 1))
                    same = t2.or_([same, grown])
                alts.append(t.and_(a, t2.not_(same)))
    return t.or_(alts)


def q_blank(cx, excludes):
    """a blank (space or tab) inserted where the lexer stands between tokens changes no token before it and is skipped"""
    goals = []
    charts = None
    blanks = sorted(cx.lx.ign_classes)
    t = lxc.TextChart(cx.lx, cx.W, 't')
    t2 = lxc.TextChart(cx.lx, cx.W + 1, 'u')
    bvar = z3.BitVec('ins_cls', t2.bits)
    for b in range(cx.W + 1):
        link = []
        for k in range(cx.W + 2):
            if k < b:
                link.append(t2.c[k] == t.c[k])
            elif k == b:
                link.append(t2.c[k] == bvar)
            else:
                link.append(t2.c[k] == (t.c[k - 1] if k - 1 <= cx.W else t.eof))
        atb = t.at(b)
        if atb is None:
            continue
        # (a blank right after a comment simply becomes part of the comment)
        wrong = t.or_([t2.not_(t2.at(b + 1)), _prefix_differs(cx, t, t2, b, allow_grow_rule=cx.rule.get('COMMENT'))])
        goals.append(t.and_(atb, z3.And(link), wrong))
    goal = z3.And(z3.Or([bvar == c for c in blanks]), t.or_(goals)) if goals else None
    # t2's own well-formedness constraints are implied by the link; drop its base (EOF monotonicity is inherited)
    t2.base = []
    return _finish([t, t2], goal, cx.timeout, "a blank between tokens changes the token stream")


def q_crlf(cx, excludes):
    """CR inserted before a line feed: every earlier token is unchanged (a COMMENT may absorb the CR) and CR LF / LF is one NEWLINE"""
    _need(cx, 'NEWLINE')
    NL = cx.rule['NEWLINE']
    CM = cx.rule.get('COMMENT')
    t = lxc.TextChart(cx.lx, cx.W, 't')
    t2 = lxc.TextChart(cx.lx, cx.W + 1, 'u')
    crc = cx.lx.cls('\r')
    goals = []
    for b in range(cx.W):
        link = []
        for k in range(cx.W + 2):
            if k < b:
                link.append(t2.c[k] == t.c[k])
            elif k == b:
                link.append(t2.c[k] == crc)
            else:
                link.append(t2.c[k] == (t.c[k - 1] if k - 1 <= cx.W else t.eof))
        atb = t.and_(t.at(b), t.is_char(b, '\n'))
        if atb is None:
            continue
        together = t2.and_(t2.at(b), t2.tok(b, NL, b + 2))
        absorbed = t2.and_(t2.at(b + 1), t2.tok(b + 1, NL, b + 2))
        wrong = t.or_([t2.not_(t2.or_([together, absorbed])), _prefix_differs(cx, t, t2, b, allow_grow_rule=CM)])
        goals.append(t.and_(atb, z3.And(link), wrong))
    t2.base = []
    return _finish([t, t2], t.or_(goals), cx.timeout, "CR LF is not equivalent to LF")


def q_reference(cx, excludes):
    """the lexer rules of the checked tree tokenise every text exactly like the published token definitions
    (spec/grammar_ref.json): same ignored characters, same rule and same extent at every lexer position, same illegal characters"""
    a = lxc.TextChart(cx.lx, cx.W, 'a')
    b = lxc.TextChart(cx.lx, cx.W, 'b', chars=a.c, use_reference=True)
    names_a = [r[0] for r in a.rules]
    names_b = [r[0] for r in b.rules]
    diffs = []
    for k in range(cx.W):
        both = a.and_(a.at(k), b.at(k))
        if both is None:
            continue
        here = []
        here.append(z3.Xor(_b(a.in_classes(k, a.ign)), _b(b.in_classes(k, b.ign))))
        ends = set()
        for ri in range(len(a.rules)):
            ends |= set(a.ends(k, ri))
        for ri in range(len(b.rules)):
            ends |= set(b.ends(k, ri))
        for name in sorted(set(names_a) | set(names_b)):
            for e in sorted(ends):
                ta = a.or_([a.tok(k, ri, e) for ri, n in enumerate(names_a) if n == name])
                tb = b.or_([b.tok(k, ri, e) for ri, n in enumerate(names_b) if n == name])
                if ta is None and tb is None:
                    continue
                here.append(z3.Xor(_b(ta), _b(tb)))
        diffs.append(a.and_(both, a.or_(here)))
    goal = a.or_(diffs)
    return _finish([a, b], goal, cx.timeout, "tokenisation differs from the published token definitions")


def _b(x):
    if x is None:
        return z3.BoolVal(False)
    if x is True:
        return z3.BoolVal(True)
    return x


QUERIES = {"reference": q_reference, "linefeeds": q_linefeeds, "names": q_names, "blank": q_blank, "crlf": q_crlf}


def validate(cx, n=300, seed=0):
    """the encoding's raw matches vs the real compiled master regex on concrete texts"""
    rnd = random.Random(seed)
    W = min(cx.W, 6)
    t = lxc.TextChart(cx.lx, W)
    for k in range(W + 1):
        t.at(k)
    s = z3.Solver()
    for c in t.base + t.defs:
        s.add(c)
    alphabet = [rep for _, rep, _ in cx.lx.classes]
    names = cx.parser.lex.lexstatere['INITIAL'][0][1]
    bad, cmp_ = [], 0
    for _ in range(n):
        L = rnd.randrange(0, W + 1)
        text = ''.join(rnd.choice(alphabet) for _ in range(L))
        s.push()
        for k in range(W + 1):
            s.add(t.c[k] == (cx.lx.cls(text[k]) if k < L else t.eof))
        assert s.check() == z3.sat
        m = s.model()
        for k in range(L):
            if text[k] in cx.lx.ignore:
                continue
            mm = cx.lx.rx.match(text, k)
            real = (names[mm.lastindex][1], mm.end()) if mm is not None else None
            mine = None
            for ri, (name, _, _) in enumerate(cx.lx.rules):
                for e in t.ends(k, ri):
                    tk = t.tok(k, ri, e)
                    if tk is not None and (tk is True or z3.is_true(m.eval(tk, model_completion=True))):
                        mine = (name, e)
            cmp_ += 1
            if mine != real:
                bad.append({"text": text, "pos": k, "real": real, "encoding": mine})
        s.pop()
    return {"texts": n, "matches_compared": cmp_, "n_disagreements": len(bad), "disagreements": bad[:5],
            "char_classes": len(cx.lx.classes)}


def raw_tokens(parser, text):
    """(rule name, start, end) of every raw match of the real master regex, skipping ignored characters; 'ERR' at an illegal char"""
    lx = parser.lex
    rx, names = lx.lexstatere['INITIAL'][0]
    ign = lx.lexstateignore['INITIAL']
    out, pos = [], 0
    while pos < len(text):
        if text[pos] in ign:
            pos += 1
            continue
        m = rx.match(text, pos)
        if m is None:
            out.append(('ERR', pos, pos))
            break
        out.append((names[m.lastindex][1], pos, m.end()))
        pos = m.end()
    return out


def json_ref():
    import json
    import os
    return json.load(open(os.path.join(os.path.dirname(os.path.dirname(os.path.abspath(__file__))), "spec", "grammar_ref.json")))["lexer"]


def replay(rec):
    from smartquery import SqParser
    parser = SqParser()
    q = rec["fn"]
    cex = rec.get("cex") or {}
    text = cex.get("text", "")
    toks = raw_tokens(parser, text)
    if q == "linefeeds":
        bad = [t for t in toks if t[0] not in ('NEWLINE', 'ERR') and '\n' in text[t[1]:t[2]]]
        for (n, a, b) in toks:
            if text[a] in '\n;' and n != 'NEWLINE':
                bad.append((n, a, b))
        return bool(bad), f"raw tokens of {text!r}: {toks}; offending {bad}"
    if q == "names":
        bad = []
        for (n, a, b) in toks:
            if n == 'NAME':
                v = text[a:b]
                if v.startswith('%'):
                    if not (len(v) >= 2 and v.endswith('%') and '%' not in v[1:-1]):
                        bad.append(v)
                elif not re.fullmatch(r'\w+', v) or (b < len(text) and re.fullmatch(r'\w', text[b])):
                    bad.append(v)
        return bool(bad), f"raw tokens of {text!r}: {toks}; offending NAME values {bad}"
    if q == "reference":
        import re as _re
        ref = json_ref()
        rx = _re.compile(ref["pattern"], ref["flags"])
        pos, out = 0, []
        while pos < len(text):
            if text[pos] in ref["ignore"]:
                pos += 1
                continue
            m = rx.match(text, pos)
            if m is None:
                out.append(('ERR', pos, pos))
                break
            out.append((ref["groups"][m.lastindex], pos, m.end()))
            pos = m.end()
        return toks != out, f"raw tokens of {text!r}: {toks} but the published token definitions give {out}"
    if q in ("blank", "crlf"):
        text2 = cex.get("text2", "")
        toks2 = raw_tokens(parser, text2)
        strip = lambda ts, tx: [(n, tx[a:b].replace('\r', '')) for n, a, b in ts if n not in ('COMMENT',)]
        a, b = strip(toks, text), strip(toks2, text2)
        # compare the streams up to the first lexical error of either
        ok = a != b
        return ok, f"raw tokens of {text!r}: {a} vs {text2!r}: {b}"
    return False, "unknown query"
