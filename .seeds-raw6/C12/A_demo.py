import sys, os; sys.path.insert(0, os.getcwd())

import smartquery
from smartquery import SqParser

assert smartquery.__file__.startswith(os.getcwd()), smartquery.__file__

parser = SqParser()

# 1. The host hands one part of a larger structure to the program. The script normalises its input
#    with the usual idiom (`cart = cart or []`) and then works on the *variable*.
order = {'id': 7, 'cart': [['apple', 1]]}
names = {'cart': order['cart']}
parser.eval('cart = cart or []\ncart.push(["pear", 2])', names=names)

assert names['cart'] == [['apple', 1], ['pear', 2]], names
# `cart` was assigned (x = e): it holds an independent copy, the host's object must be untouched
assert order['cart'] == [['apple', 1]], f'host object changed through an assigned variable: {order}'

# 2. Two names supplied by the host that refer to the same object; `a = b` must give `a` its own copy.
shared = {'k': [1]}
names = {'a': shared, 'b': shared}
parser.eval('a = b\na["k"].push(2)\na["new"] = 1', names=names)
assert names['b'] == {'k': [1]}, f'mutation through a is visible through b: {names}'
assert shared == {'k': [1]}, shared

# 3. Purely inside the language: an alias made by push(), then re-assignment from that alias.
names = {}
parser.eval('x = [1]\nc = []\nc.push(x)\nx = c[0]\nx.push(2)', names=names)
assert names['x'] == [1, 2], names
assert names['c'] == [[1]], f'mutation of the stored value of x is visible in c: {names}'

# 4. Conditional self-assignment
h = [[0]]
names = {'x': h}
parser.eval('x = x if len(x) > 0 else [[1]]\nx[0].push(5)', names=names)
assert h == [[0]], h

print('ok')
