import sys, os; sys.path.insert(0, os.getcwd())
from decimal import Decimal

import smartquery
from smartquery import SqParser

assert smartquery.__file__.startswith(os.getcwd()), smartquery.__file__

PREC = 28


def digits(v):
    assert not isinstance(v, float)
    return len(Decimal(v).as_tuple().digits)


parser = SqParser()

# ordinary products are unaffected
assert parser.eval('5 * 20') == 100
assert parser.eval('x * y', names={'x': 12, 'y': 0.5}) == 6

# 1. a single product that does not fit 28 digits must be rounded to 28 digits (or raise)
for x, y in [(10 ** 15, 3 * 10 ** 15), (12345678901234567890, 98765432109876543210), (2.5e20, 4e20)]:
    r = parser.eval('x * y', names={'x': x, 'y': y})
    assert isinstance(r, Decimal), type(r)
    assert digits(r) <= PREC, ('x * y', x, y, digits(r))

# 2. compound assignments
names = {'x': 10 ** 20, 'o': {'k': 10 ** 20}}
parser.eval('x *= 123456789012345', names=names)
parser.eval('o["k"] *= 123456789012345', names=names)
assert digits(names['x']) <= PREC, digits(names['x'])
assert digits(names['o']['k']) <= PREC, digits(names['o']['k'])

# 3. repeated squaring: the size of the number must not double with every operation
names = {'x': 10 ** 20 + 1}
sizes = []
for _ in range(12):
    parser.eval('x *= x', names=names)
    sizes.append(digits(names['x']))
assert max(sizes) <= PREC, sizes

# 4. a power result (28 digits, big exponent) fed into a product
r = parser.eval('(7 ** 5000) * 3')
assert digits(r) <= PREC, digits(r)

print('ok')
