import sys, os; sys.path.insert(0, os.getcwd())

import decimal

import smartquery
from smartquery import SqParser

assert smartquery.__file__.startswith(os.getcwd()), smartquery.__file__

parser = SqParser()


def digits(v):
    """number of decimal digits of a number, whatever its type (no str() of huge ints)"""
    if isinstance(v, decimal.Decimal):
        return len(v.as_tuple().digits)
    if isinstance(v, int):
        return int(abs(v).bit_length() * 0.30103) + 1
    return len(repr(v))


def power(a, b):
    """a ** b on host-supplied numbers: ('ok', value) or ('arith', exception)"""
    try:
        return 'ok', parser.eval('a ** b', names={'a': a, 'b': b})
    except ArithmeticError as e:   # decimal.Overflow, decimal.InvalidOperation, OverflowError, ...
        return 'arith', e


# sanity: ordinary powers of host ints are 28-digit decimals
kind, res = power(3, 200)
assert kind == 'ok' and isinstance(res, decimal.Decimal) and digits(res) <= 28, (kind, res)

# the same with the literals of the language: always a decimal signal, never a big number
try:
    parser.eval('3 ** 2100000')
except ArithmeticError:
    pass
else:
    raise AssertionError('3 ** 2100000 (literals) did not signal')

# host-supplied plain ints whose power is beyond the decimal exponent range (> 1E+999999):
# must be a 28-digit decimal or an arithmetic error, never the exact integer
for a, b in [(3, 2_100_000), (-7, 1_200_001), (10 ** 30 + 1, 40_000), (True + 1, 3_400_000)]:
    kind, res = power(a, b)
    if kind == 'ok':
        n = digits(res)
        assert n <= 28, f'{str(a)[:12]} ** {b} returned a {type(res).__name__} with about {n} digits'

print('ok')
