"""C01 harnesses: the op budget is enforced exactly on every evaluation path."""
from sqv import hlib
from sqv.nodes import *  # noqa
from sqv.nodes import Stub, StubRaise, Tok, build, mkstate
from smartquery import ast_ops
from smartquery.ast_ops import Op
from smartquery.exceptions import ParserError, OpsExecutionLimitExceededError as OpsLimit


def base_step(k: int, n: int) -> None:
    """
    pre: k >= 0 and n >= 1
    post: True
    """
    hlib.enter(locals())
    st = mkstate(k, n)
    node = ast_ops.NoOp()
    raised = None
    try:
        Op.eval(node, st)
    except Exception as e:
        raised = e
    assert st.ops_evaluated == k + 1, "counter not incremented by exactly one"
    assert st.max_ops_evaluated == n, "budget changed"
    if k + 1 >= n:
        assert type(raised) is OpsLimit and isinstance(raised, ParserError), "no ops-limit error at the N-th op"
    else:
        assert raised is None, "ops-limit error before the budget is reached"
    hlib.done()


def _hostf(*a):
    return len(a)


def node_step(k: int, n: int, nch: int, r0: bool, r1: bool, r2: bool, r3: bool, fail: int, calls: int) -> None:
    """
    pre: k >= 0 and n >= 1 and 0 <= nch <= 4 and -1 <= fail <= 7 and 0 <= calls <= 4
    post: True
    """
    hlib.enter(locals())
    hlib.assume(hlib.deep() or (nch <= 2 and fail <= 3 and calls <= 2))
    kind, op = hlib.PARAM["kind"], hlib.PARAM["op"]
    log = []
    node, stubs = build(kind, op, log, [Tok(r0), Tok(r1), Tok(r2), Tok(r3)], nch, fail, value=7)
    host = {'x': 5}
    st = mkstate(k, n, host=host, functions={'x': _hostf})
    if kind == 'CallOp':
        host['x'] = _hostf
    raised = None
    res = None
    try:
        res = node.eval(st)
        if kind == 'LambdaOp':
            for _ in range(calls):
                res(1, 2)
    except Exception as e:
        raised = e
    enters = [e for e in log if e[0] == 'enter']
    assert st.max_ops_evaluated == n, "budget changed"
    if k + 1 >= n:
        assert type(raised) is OpsLimit, "node started although the budget was exhausted"
        assert log == [], "child evaluated before the node's own charge"
        assert host == {'x': _hostf if kind == 'CallOp' else 5}, "effect before the charge"
        assert st.ops_evaluated == k + 1
    else:
        # every child evaluation entered charges exactly one op, the node itself one, nothing else, no reset
        assert st.ops_evaluated == k + 1 + len(enters), "counter != own charge + child evaluations"
        for j, e in enumerate(enters):
            assert e[2] == k + 1 + j, "child saw a counter that does not include the node's own charge"
        assert (type(raised) is OpsLimit) == (st.ops_evaluated >= n), "ops-limit error iff the counter reached N"
    assert len(st.names.scopes) == 2, "scope stack not restored"
    hlib.done()


# ---------------------------------------------------------------------------------------------
# API templates: concrete texts through the real SqParser.eval, symbolic budget / host data
from sqv.api import PARSER, CACHED, count_nodes, run_eval, Probe, prewarm  # noqa
if isinstance(hlib.PARAM, dict):
    prewarm(hlib.PARAM.get("text"), hlib.PARAM.get("define"), hlib.PARAM.get("use"), "v => v + a", "a + b", "one + one")


def api_forward(n: int, a: int, b: int, c: bool) -> None:
    """
    pre: n >= 1
    post: True
    """
    hlib.enter(locals())
    text = hlib.PARAM["text"]
    names = {'a': a, 'b': b, 'c': c}
    need = count_nodes(text, dict(names))        # independent count, unbounded run with wrapped evals
    out = run_eval(text, names, n)
    if need < n:
        assert out[0] == 'ok', "run needing fewer than N ops did not return normally"
    else:
        assert out[0] == 'err' and out[1] is OpsLimit, "run needing >= N ops did not raise ops-limit"
    hlib.done()


from typing import List


def _names(a, b, c, l, j, probe, swallow=False):
    def h(f):
        r = 0
        for _ in range(j):
            if swallow:
                try:
                    r = f(r)
                except Exception:
                    pass
            else:
                r = f(r)
        return r
    return {'a': a, 'b': b, 'c': c, 'l': list(l), 'h': h, 't': probe, 'one': 1, 'zero': 0}


def api_budget(n: int, a: int, b: int, c: bool, l: List[int], j: int, again: bool = False) -> None:
    """
    pre: n >= 1 and len(l) <= 5 and 0 <= j <= 5 and 0 <= a <= 6
    post: True
    """
    hlib.enter(locals())
    hlib.assume(hlib.deep() or (len(l) <= 3 and j <= 3 and a <= 3))
    text = hlib.PARAM["text"]
    # the same parsed program may have been evaluated before (a host with a parse cache re-uses the tree):
    # the measured run is then the SECOND evaluation of the very same tree
    run_eval(text, _names(a, b, c, l, j, Probe()), 10**6 if again else 1)
    api_reset()
    out = run_eval(text, _names(a, b, c, l, j, Probe()), n)
    started = api_count()      # independent count of node evaluations started by this run
    if out[0] == 'err' and out[1] is OpsLimit:
        assert started == n, "ops-limit error raised at an operation other than the N-th"
    else:
        assert started < n, "run returned (or failed otherwise) after starting N or more operations"
    hlib.done()


def api_default_budget(a: int, b: int, c: bool) -> None:
    """
    pre: True
    post: True
    """
    hlib.enter(locals())
    text = hlib.PARAM["text"]
    need = count_nodes(text, {'a': a, 'b': b, 'c': c})
    out = run_eval(text, {'a': a, 'b': b, 'c': c}, None, parser=PARSER)
    assert (out[0] == 'err' and out[1] is OpsLimit) == (need >= 100), "default budget is not 100"
    hlib.done()


def api_monotone(n: int, d: int, a: int, b: int, c: bool, l: List[int], j: int) -> None:
    """
    pre: n >= 1 and d >= 0 and len(l) <= 5 and 0 <= j <= 5 and 0 <= a <= 6
    post: True
    """
    hlib.enter(locals())
    hlib.assume(hlib.deep() or (len(l) <= 3 and j <= 3 and a <= 3))
    text = hlib.PARAM["text"]
    p0, p1, p2 = Probe(), Probe(), Probe()
    n0, n1, n2 = _names(a, b, c, l, j, p0), _names(a, b, c, l, j, p1), _names(a, b, c, l, j, p2)
    out0 = run_eval(text, n0, 10**9)            # unbounded run
    out1 = run_eval(text, n1, n)
    if out1[0] == 'ok':
        out2 = run_eval(text, n2, n + d)
        assert out2[0] == 'ok' and out2[1] == out1[1], "success with N but different outcome with N+d"
        assert p2.log == p1.log, "host-visible effects differ between N and N+d"
        assert n1['l'] == n2['l']
    if out1[0] == 'err' and out1[1] is OpsLimit:
        assert p1.log == p0.log[:len(p1.log)], "effects of an aborted run are not a prefix of the unbounded run's"
    else:
        assert out1[:2] == out0[:2] or (out0[0] == 'ok' and out1[0] == 'ok' and out0[1] == out1[1])
        assert p1.log == p0.log
    hlib.done()


def api_swallow(n: int, a: int, j: int) -> None:
    """
    pre: n >= 1 and 0 <= j <= 3 and 0 <= a <= 3
    post: True
    """
    hlib.enter(locals())
    text = hlib.PARAM["text"]
    p = Probe()
    names = _names(a, 0, False, [], j, p, swallow=True)
    need_before = []

    def t(i, v=None):
        # host-visible effect: remember how many node evaluations had been started when it happened
        need_before.append(api_count())
        return v
    names['t'] = t
    api_reset()
    run_eval(text, names, n)
    for started in need_before:
        assert started < n, "a host-visible effect happened at or after the N-th operation"
    hlib.done()


from sqv.api import api_count, api_reset  # noqa


def cross_eval(n1: int, n2: int, a: int, j: int) -> None:
    """
    pre: n1 >= 4 and n2 >= 1 and 0 <= j <= 3
    post: True
    """
    hlib.enter(locals())
    # lambda defined by one eval (budget n1), invoked by a later eval (budget n2) sharing `names`
    names = {'a': a}
    out = run_eval(hlib.PARAM["define"], names, n1)
    hlib.assume(out[0] == 'ok' or hlib.PARAM.get("define_fails"))
    hlib.assume('f' in names)
    for _ in range(j):
        run_eval(hlib.PARAM["use"], names, 10**6)   # earlier uses by other calls must not matter
    need = count_nodes(hlib.PARAM["use"], dict(names))
    for _ in range(j):
        run_eval(hlib.PARAM["use"], names, 10**6)
    out2 = run_eval(hlib.PARAM["use"], names, n2)
    if need < n2:
        assert out2[0] == 'ok', "cross-eval lambda: later eval failed although its own node evaluations < its budget"
    else:
        assert out2[0] == 'err' and out2[1] is OpsLimit, "cross-eval lambda: later eval exceeded its own budget without error"
    hlib.done()


AST_NAMES = {"g": "v => v + a", "k": "a + b"}


def api_ast_names(n: int, a: int, b: int, l: List[int]) -> None:
    """
    pre: n >= 1 and len(l) <= 3
    post: True
    """
    # eval(..., ast_names=...): pre-parsed definitions are evaluated by the same call and count against ITS budget,
    # and so do lambdas they define
    hlib.enter(locals())
    text = hlib.PARAM["text"]
    astn = {k: CACHED.parse(v) for k, v in AST_NAMES.items()}
    api_reset()
    try:
        CACHED.eval(text, {'a': a, 'b': b, 'l': list(l)}, ast_names=astn, max_ops_evaluated=n)
        out = ('ok',)
    except Exception as e:
        out = ('err', type(e))
    started = api_count()
    if out[0] == 'err' and out[1] is OpsLimit:
        assert started == n, "ops-limit error raised at an operation other than the N-th (ast_names)"
    else:
        assert started < n, "run with ast_names returned (or failed otherwise) after starting N or more operations"
    hlib.done()


REENTRANT = ["x = re(one)\ny = t(1, a)\nz = t(2, b)", "l | map(v => re(v)) | len", "re(re(one)) + t(1, a)",
             "y = re(one)\nl | map(v => t(v, a)) | len", "f = v => v + one\nre(0)\nf(f(f(a)))"]


def api_reentrant(n: int, a: int, b: int, l: List[int], inner_budget: int, inner_fails: bool = False) -> None:
    """
    pre: n >= 1 and len(l) <= 2 and inner_budget >= 1
    post: True
    """
    # a host callback that itself calls eval() on the SAME parser with the SAME names mapping: each call has its own budget
    hlib.enter(locals())
    text = hlib.PARAM["text"]
    names = {'a': a, 'b': b, 'l': list(l), 'one': 1, 't': Probe()}
    inner_nodes = [0]

    inner_fails = True if inner_fails else False

    def re(v):
        before = api_count()
        try:
            if inner_fails:
                # the nested eval fails (undefined name, or its own limit) and the host swallows that
                try:
                    return CACHED.eval("one + nosuch", names, max_ops_evaluated=inner_budget)
                except Exception:
                    return 1
            return CACHED.eval("one + one", names, max_ops_evaluated=inner_budget)
        finally:
            inner_nodes[0] += api_count() - before
    names['re'] = re
    api_reset()
    try:
        CACHED.eval(text, names, max_ops_evaluated=n)
        out = None
    except Exception as e:
        out = e
    own = api_count() - inner_nodes[0]          # node evaluations of the OUTER call only
    if isinstance(out, OpsLimit) and (inner_budget > 4 or inner_fails):
        assert own == n, "outer eval: ops-limit raised at an operation other than its own N-th (re-entrant eval from a host callback)"
    elif out is None:
        assert own < n, "outer eval returned although it started N or more operations of its own (re-entrant eval from a host callback)"
    hlib.done()


# ---- host-visible effects per operation -------------------------------------------------------------------------------
# every evaluation of a lambda body is an operation: a body that reads one item of a host object cannot be evaluated
# N or more times under budget N, whatever the shape of the body and whoever drives it
_ACCESS = []


class RecRow(dict):
    def __getitem__(self, k):
        _ACCESS.append(k)
        return dict.__getitem__(self, k)


class RecList(list):
    def __getitem__(self, k):
        _ACCESS.append(k)
        return list.__getitem__(self, k)


EFFECTS = ["rows | map(r => r['a']) | len", "rows | filter(r => r['a']) | len", "sorted(rows, r => r['a']) | len",
           "rows | map(r => r['a'] + zero) | len", "pairs | map(p => p[0]) | len", "pairs | filter(p => p[1]) | len",
           "each(r => r['a'])", "each(r => r[key])", "rows | map(r => r[key]) | len", "rows | reduce((x, y) => y)['a']",
           "f = r => r['a']\nrows | map(f) | len", "rows | map(r => (q => q['a'])(r)) | len", "each(r => [r['a']])"]
BUDGETS = [1, 2, 3, 5, 8, 13, 21, 34, 55, 100, 149, 150, 151, 300]


def effects_bounded(ni: int, again: bool) -> None:
    """
    pre: 0 <= ni < 14
    post: True
    """
    hlib.enter(locals())
    text = EFFECTS[hlib.PARAM["t"]]
    n = BUDGETS[hlib.concrete(ni, 0, 13)]
    again = True if again else False
    with hlib.native():
        rows = [RecRow(a=i + 1, b=0) for i in range(150)]
        pairs = [RecList([i + 1, i]) for i in range(150)]

        def each(f):
            return len([f(r) for r in rows])
        names = {'rows': rows, 'pairs': pairs, 'each': each, 'zero': 0, 'key': 'a'}
        if again:
            run_eval(text, dict(names), 10**6)          # the same tree has been evaluated before
        del _ACCESS[:]
        out = run_eval(text, names, n)
        k = len(_ACCESS)
    assert k < n, "%r under budget %d: %d lambda-body evaluations reached host data (each is at least one operation)" % (text, n, k)
    hlib.done()


# ---- the state an aborted run leaves behind is a state the unbounded run passes through --------------------------------
PREFIX_PROGS = [
    ["x = 1", "t(1)", "y = x + 1", "notes.push(y)", "t(2)", "z = [x, y]", "notes.push(z)", "t(3)"],
    ["acc = 0", "acc += a", "t(acc)", "d['k'] = acc", "acc += 1", "t(acc)", "d['j'] = [acc]"],
    ["f = v => t(v)", "r = [1, 2] | map(f)", "s = r | len", "notes.push(s)"],
]


def abort_prefix(pi: int, n: int) -> None:
    """
    pre: 0 <= pi < 3 and 1 <= n <= 60
    post: True
    """
    hlib.enter(locals())
    pi, n = hlib.concrete(pi, 0, 2), hlib.concrete(n, 1, 60)
    with hlib.native():
        prog = PREFIX_PROGS[pi]

        def fresh():
            p = Probe()
            return {'t': p, 'notes': [], 'd': {}, 'a': 5}, p

        def observe(nm, p):
            return repr(sorted((k, v) for k, v in nm.items() if k not in ('t', 'f'))), list(p.log), ('f' in nm)
        states = []
        for k in range(len(prog) + 1):
            nm, p = fresh()
            run_eval("\n".join(prog[:k]), nm, 10**6)
            states.append(observe(nm, p))
        nm, p = fresh()
        out = run_eval("\n".join(prog), nm, n)
        seen = observe(nm, p)
        aborted = out[0] == 'err' and out[1] is OpsLimit
        # statements are atomic here except for the probe calls inside map: the log may run ahead of the names
        ok = seen in states or (pi == 2 and aborted and any(seen[0] == s[0] and seen[2] == s[2] and s[1][:len(seen[1])] == seen[1] or
                                                          (seen[0] == s[0] and seen[2] == s[2] and seen[1][:len(s[1])] == s[1]) for s in states))
    assert ok, "budget %d: the state left behind %r is not a state the unbounded run passes through" % (n, seen)
    hlib.done()
