import sys, os; sys.path.insert(0, os.getcwd())

import smartquery
assert smartquery.__file__.startswith(os.getcwd()), smartquery.__file__

from smartquery import SqParser

p = SqParser()


def check(ops, model_ops):
    """run the smartquery statements on `a` and the same steps on a Python list"""
    names = {'a': []}
    model = []
    for line, step in zip(ops, model_ops):
        p.eval(line, names=names)
        step(model)
        assert names['a'] == model, f'after {line!r}: list is {names["a"]}, model is {model}'
        assert p.eval('len(a)', names=names) == len(model)


push = lambda v: (lambda m: m.append(v))
remove = lambda v: (lambda m: m.remove(v) if v in m else None)

# ordinary uses: unique values, a missing value, two adjacent duplicates
check(['a.push(1)', 'a.push(2)', 'a.push(3)', 'a.remove(2)', 'a.remove(9)'],
      [push(1), push(2), push(3), remove(2), remove(9)])
check(['a.push(1)', 'a.push(1)', 'a.remove(1)'],
      [push(1), push(1), remove(1)])

# remove() takes out the FIRST occurrence only: the value pushed again later must survive
check(['a.push(1)', 'a.push(2)', 'a.push(1)', 'a.remove(1)'],
      [push(1), push(2), push(1), remove(1)])

# three equal values: two of them stay
check(['a.push(7)', 'a.push(7)', 'a.push(7)', 'a.remove(7)'],
      [push(7), push(7), push(7), remove(7)])

# and the removed value is still found afterwards
names = {'a': ['x', 'y', 'x']}
p.eval('a.remove("x")', names=names)
assert p.eval('"x" in a', names=names) is True
assert p.eval('a.index_of("x")', names=names) == 1

print('ok')
