from sqv.driver import Obligation


def plan(ctx):
    T = 60 if ctx["tier"] == "quick" else 300
    obs = [
        Obligation("literal.routing", "xh", "c08", "literal_routing", timeout=T, bounds="15 literal texts (1..60 digits), index symbolic",
                   desc="t_NUMBER hands the token text itself (str) to the Decimal constructor"),
        Obligation("literal.exact", "xh", "c08", "literal_exact", timeout=T, bounds="15 literal texts through the real parser",
                   desc="eval(literal) == Fraction(literal text)"),
        Obligation("identities", "xh", "c08", "known_identity", timeout=T, bounds="-", desc="0.1 + 0.2 == 0.3 etc.; context facts"),
    ]
    for op in ('+', '-', '*', '/', '**', 'neg', '<', '>', '<=', '>='):
        obs.append(Obligation(f"operator.routing.{op}", "xh", "c08", "operator_routing", param={"op": op}, timeout=T, bounds="operand order symbolic",
                              desc=f"operator {op} applies the Decimal operation to the operand objects (no float detour)"))
    for fn in ('int', 'round', 'floor', 'ceil', 'abs', 'sum', 'min', 'max'):
        obs.append(Obligation(f"builtin.no_float.{fn}", "xh", "c08", "builtin_no_float", param={"fn": fn}, timeout=T, bounds="round places 0..3",
                              desc=f"{fn} on a Decimal never converts it to binary float"))
    for op in ('+', '-', '*', '/', '==', '<', '>=', '!='):
        obs.append(Obligation(f"arithmetic.exact.{op}", "xh", "c08", "arithmetic_exact", param={"op": op}, timeout=T * 2,
                              bounds="20 x 20 literal pairs (incl. 29-digit, 2**53 and 2**53+1, 0.3 and 0.30000000000000001, 1e-30, exact half-even ties), optional unary minus, either operand a literal or the result of an operation: finite domain, indices symbolic",
                              desc=f"real eval of 'a {op} b' vs exact rational arithmetic rounded half-even to 28 digits"))
    for fn in ('round', 'floor', 'ceil', 'abs', 'int', 'sum', 'min', 'max'):
        obs.append(Obligation(f"builtin.exact.{fn}", "xh", "c08", "builtin_exact", param={"fn": fn}, timeout=T * 2,
                              bounds="operands from 18 expressions (zeros written and computed, negatives, ties, a 29-digit literal, values for rounding to tens / hundreds); call forms f([..]), [..] | f, f([x]), f(x, y) / x | f / round(x, 1), round(x, -1), round(x, -2): finite domain, form and first operand symbolic, the others looped natively",
                              desc=f"real eval of {fn} applied to literal expressions vs exact rationals (half-even where rounding is defined)"))
    obs.append(Obligation("after_failure", "xh", "c08", "after_failure", timeout=T * 2, bounds="10 failing numeric calls, once or twice (finite domain)",
                          desc="a failing numeric call leaves the decimal context and later arithmetic untouched"))
    for o1 in ('+', '-', '*', '/'):
        for o2 in ('+', '-', '*', '/'):
            obs.append(Obligation(f"arithmetic.chain.{o1}{o2}", "xh", "c08", "arithmetic_chain", param={"o1": o1, "o2": o2}, timeout=T * 2,
                                  bounds="head from 5 forms (1/x, -(1/x), abs(1/x), a host Decimal, (x)) x 6 x 6 x 6 operands: finite domain, indices symbolic",
                                  desc=f"real eval of 'head {o1} b {o2} c' vs exact rationals rounded after EACH operation in operator-table order"))
    return {
        "obligations": obs,
        "explanation": "REDUCED SCOPE (libmpdec itself is not encodable): CrossHair-driven routing obligations with a Decimal recording stub "
                       "(literal text reaches the constructor unchanged; operators apply the Decimal operation to the operand objects; "
                       "numeric builtins never call float()) plus a finite differential check of the real arithmetic on a pool of literals "
                       "against fractions.Fraction (the solver only selects pool indices there).",
        "functions": ["smartquery.lexer.t_NUMBER", "smartquery.ast_ops.BinOp.eval", "UnaryOp.eval", "FUNCTIONS[int/round/floor/ceil/abs/sum/min/max]"],
        "files": ["smartquery/lexer.py", "smartquery/ast_ops.py", "smartquery/custom_types.py", "smartquery/functions.py"],
        "bounds": "literal pool of 15, operand pool of 12; routing obligations independent of values",
        "outside": "correct rounding of libmpdec for operands outside the pool (decimal module's contract)",
        "stubs": ["Decimal recording stub"],
        "assumptions": ["decimal module implements the General Decimal Arithmetic specification under the default context"],
        "trusted": ["CrossHair 0.0.110", "z3", "libmpdec"],
    }
