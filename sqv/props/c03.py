from sqv.driver import Obligation

SIZED = ["a + b", "x = a\nx += b\nx", "x = [a]\nx[0] += b\nx[0]", "x = a\nx *= k\nx", "x = [a]\nx[0] *= k\nx[0]",
         "a + b + a", "[a, b] | reduce((p, q) => p + q)"]
SMALL = [
    ("[a, b, k]", 3), ("{'p': a, 'q': b}", 2), ("a | map(v => v)", 0), ("a | filter(v => v)", 0), ("sorted(a)", 0),
    ("reversed(a)", 0), ("enumerate(a)", 0), ("shuffle(a)", 0), ("list(a, b)", 2), ("a[k:]", 0), ("a[::k]", 0), ("a[:k]", 0),
    ("s | split(',')", 0), ("s | match_all('a')", 0), ("s | map(c => c)", 0), 
    ("keys({'p': a})", 1), ("values({'p': a})", 1), ("items({'p': a})", 1), ("dict()", 0), ("list()", 0),
    ("sorted({'p': k, 'q': k})", 2), ("{'p': k} | map((x, y) => y)", 1),
]


def plan(ctx):
    T = 40 if ctx["tier"] == "quick" else 240
    obs = [Obligation("constant", "xh", "c03", "cap_constant", timeout=T, bounds="x unbounded",
                      desc="forall x: (x >= MAX_ARRAY_SIZE) == (x >= 10000)")]
    for fn in ("push", "insert", "__setitem__", "__setitem_with_op__"):
        obs.append(Obligation(f"list.{fn}", "xh", "c03", "mut_list", param={"fn": fn}, timeout=T,
                              bounds="list length symbolic and unbounded (>= 1), index and value unbounded ints",
                              desc=f"FUNCTIONS[{fn!r}] on a list of arbitrary length: ParserError and unchanged iff len >= 10000; else grows by <= 1"))
        obs.append(Obligation(f"list0.{fn}", "xh", "c03", "mut_list_empty", param={"fn": fn}, timeout=T,
                              bounds="empty list", desc="same on the empty list (excluded from the obligation above by its witness index)"))
    for fn in ("__setitem__", "__setitem_with_op__"):
        obs.append(Obligation(f"dict.{fn}", "xh", "c03", "mut_dict", param={"fn": fn}, timeout=T,
                              bounds="dict length symbolic and unbounded; contents abstracted by a dict subclass with symbolic __len__",
                              desc=f"FUNCTIONS[{fn!r}] on a dict of arbitrary size"))
    from sqv.harness import c03 as h
    for k, text in h.API_TEXTS.items():
        obs.append(Obligation(f"api.{k}", "xh", "c03", "api_mut", param={"api": k}, timeout=T * 2,
                              bounds="host list of symbolic unbounded length", desc=f"SqParser.eval({text!r})"))
    for i, text in enumerate(SIZED):
        obs.append(Obligation(f"growth.sized.t{i}", "xh", "c03", "growth_sized", param={"text": text}, timeout=T,
                              bounds="operand list LENGTHS symbolic and unbounded (contents abstracted by a list subclass with symbolic "
                                     "__len__ / concatenation / repetition; replay uses real lists); k in 0..3",
                              desc=f"eval({text!r}): len(result) <= max(10000, len(a), len(b))"))
    for i, (text, lit) in enumerate(SMALL):
        obs.append(Obligation(f"growth.small.t{i}", "xh", "c03", "growth_small", param={"text": text, "lit": lit}, timeout=T * 2,
                              bounds="host lists a, b and string s of length <= 3 (symbolic contents), k in -3..3",
                              desc=f"eval({text!r}): result never longer than the longest operand / the literal spelled out"))
    return {
        "obligations": obs,
        "explanation": "CrossHair (z3) symbolic execution of the real mutators (taken from the FUNCTIONS table) and of "
                       "templates through SqParser.eval, with the container LENGTH a symbolic unbounded integer.",
        "functions": ["smartquery.functions._push", "_insert", "_set", "_set_with_op", "_check_array_size",
                      "smartquery.ast_ops.BinOp.eval", "ShortOp.eval", "growth routes through SqParser.eval"],
        "files": ["smartquery/functions.py", "smartquery/ast_ops.py"],
        "bounds": "none on list length (LIA over CrossHair's symbolic sequences); dict contents abstracted",
        "outside": "sequences of operations follow from the one-step obligations (containers have no hidden state)",
        "stubs": ["LenDict: dict subclass with symbolic __len__"],
        "assumptions": ["CrossHair's model of list/str"],
        "trusted": ["CrossHair 0.0.110", "z3"],
    }
