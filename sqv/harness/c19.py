"""C19 harnesses: random builtins stay within their documented range.
`random` (module-level functions; C code) is replaced inside smartquery.functions by a nondeterministic stub
that returns an arbitrary value allowed by the documented contract of the real function; the draw is a symbolic
harness argument.  Decimal is replaced by a recording stub where a symbolic number would reach the C constructor."""
import operator
from decimal import Decimal as RealDecimal
from typing import List

from sqv import hlib
from smartquery import functions
from smartquery.functions import FUNCTIONS
from smartquery.exceptions import ParserError
from sqv.api import run_eval, prewarm


from sqv.randstub import RandStub  # noqa


class DecStub:
    """records the constructor argument (the C constructor is exact, so the argument IS the value)"""

    def __init__(self, arg):
        self.arg = arg


DEC_POOL = [RealDecimal('0'), RealDecimal('1'), RealDecimal('-3'), RealDecimal('7'), RealDecimal('10'),
            RealDecimal('1E+1'), RealDecimal('2.0'), RealDecimal('12345678901234567890'),
            RealDecimal('10000000000000000000000000001'), RealDecimal('10000000000000000000000000003'),
            RealDecimal('-99999999999999999999999999999')]


def _install(ints, flt):
    saved = (functions.random, functions.Decimal)
    functions.random = RandStub(ints, flt)
    functions.Decimal = DecStub
    return saved


def _restore(saved):
    functions.random, functions.Decimal = saved


def rand_unit(f: float) -> None:
    """
    pre: True
    post: True
    """
    hlib.enter(locals())
    saved = _install([], f)
    try:
        r = FUNCTIONS['rand']()
    finally:
        _restore(saved)
    assert isinstance(r, DecStub) and 0.0 <= r.arg < 1.0, "rand() outside [0, 1)"
    hlib.done()


def rand_ints(a: int, b: int, draw: int) -> None:
    """
    pre: a <= b
    post: True
    """
    hlib.enter(locals())
    saved = _install([draw], 0.0)
    try:
        r = FUNCTIONS['rand'](a, b)
    finally:
        _restore(saved)
    assert isinstance(r, DecStub), "rand(a, b) does not return a number"
    assert r.arg == int(r.arg) and a <= r.arg <= b, "rand(a, b) outside [a, b] or not an integer"
    hlib.done()


def rand_decimals(ia: int, ib: int, off: int, top: bool) -> None:
    """
    pre: 0 <= ia < 11 and 0 <= ib < 11 and 0 <= off <= 2
    post: True
    """
    # integer-valued Decimal bounds: what numeric literals produce (rand(1, 10))
    hlib.enter(locals())
    ia, ib, off = hlib.concrete(ia, 0, 10), hlib.concrete(ib, 0, 10), hlib.concrete(off, 0, 2)
    a, b = DEC_POOL[ia], DEC_POOL[ib]
    hlib.assume(a <= b)
    saved = _install([], 0.0)
    functions.random.near = (off, True if top else False)     # concrete draws: real Decimal arithmetic downstream
    raised = None
    r = None
    try:
        try:
            r = FUNCTIONS['rand'](a, b)
        except Exception as e:
            raised = e
    finally:
        _restore(saved)
    assert raised is None, "rand(a, b) fails for integer-valued Decimal bounds (%s)" % type(raised).__name__
    v = r.arg if isinstance(r, DecStub) else r
    assert isinstance(v, (int, RealDecimal)) and v == int(v) and a <= v <= b, "rand(a, b) outside [a, b] or not an integer"
    hlib.done()


IB = [-5, -2, -1, 0, 1, 3, 2 ** 31 + 5, -2 ** 33]
FR = [0.0, 0.25, 0.5, 0.75, 0.999999, 0.9999999999999999]


def rand_ints_concrete(ia: int, ib: int, fi: int, off: int, top: bool) -> None:
    """
    pre: 0 <= ia < 8 and 0 <= ib < 8 and 0 <= fi < 6 and 0 <= off <= 2
    post: True
    """
    # concrete host-int bounds (negative, zero, beyond 2**31) with concrete draws: whatever generator function the code uses
    hlib.enter(locals())
    ia, ib, fi, off = hlib.concrete(ia, 0, 7), hlib.concrete(ib, 0, 7), hlib.concrete(fi, 0, 5), hlib.concrete(off, 0, 2)
    a, b = IB[ia], IB[ib]
    hlib.assume(a <= b)
    with hlib.native():
        saved = _install([], FR[fi])
        functions.random.near = (off, True if top else False)
        try:
            r = FUNCTIONS['rand'](a, b)
        finally:
            _restore(saved)
        v = r.arg if isinstance(r, DecStub) else r
        ok = isinstance(v, (int, RealDecimal)) and v == int(v) and a <= v <= b
    assert ok, "rand(%d, %d) returned %r" % (a, b, v)
    hlib.done()


def rand_choice(l: List[int], draw: int) -> None:
    """
    pre: 1 <= len(l) <= 4
    post: True
    """
    hlib.enter(locals())
    before = list(l)
    saved = _install([draw], 0.0)
    try:
        r = FUNCTIONS['rand'](l)
    finally:
        _restore(saved)
    assert r in before, "rand(list) returned something that is not an element"
    assert l == before, "rand(list) changed its argument"
    hlib.done()


class _Obj:
    def __init__(self, i):
        self.i = i

    def __eq__(self, other):
        return EQ_ALL and isinstance(other, _Obj) or self is other

    def __hash__(self):
        return 0 if EQ_ALL else id(self)

    def __repr__(self):
        return "o%d" % self.i


EQ_ALL = False          # when set, all _Obj compare equal (like 1 / True / Decimal('1.0')) but stay distinguishable


def shuffle_perm(n: int, d1: int, d2: int, d3: int) -> None:
    """
    pre: 0 <= n <= 4
    post: True
    """
    hlib.enter(locals())
    global EQ_ALL
    EQ_ALL = bool(hlib.PARAM and hlib.PARAM.get("eq_all"))
    l = [_Obj(i) for i in range(n)]
    before = list(l)
    saved = _install([d1, d2, d3], 0.0)
    try:
        r = FUNCTIONS['shuffle'](l)
    finally:
        _restore(saved)
    assert isinstance(r, list) and r is not l, "shuffle did not return a new list"
    assert len(l) == len(before) and all(x is y for x, y in zip(l, before)), "shuffle changed its argument"
    assert len(r) == len(before) and sorted(x.i for x in r) == list(range(n)), "shuffle result is not a permutation of the argument (as objects, not just as values)"
    hlib.done()


LONG = [9999, 10000, 10001, 20000]


def shuffle_long(ni: int, d1: int, d2: int, d3: int) -> None:
    """
    pre: 0 <= ni < 4 and 0 <= d1 and 0 <= d2 and 0 <= d3
    post: True
    """
    # host lists around and beyond the 10000-element cap: still a permutation (nothing dropped, nothing repeated)
    hlib.enter(locals())
    n = LONG[hlib.concrete(ni, 0, 3)]
    d1, d2, d3 = hlib.concrete(d1, 0, 3), hlib.concrete(d2, 0, 3), hlib.concrete(d3, 0, 3)
    with hlib.native():
        l = list(range(n))
        saved = _install([d1, d2, d3], 0.0)
        try:
            try:
                r = FUNCTIONS['shuffle'](l)
                raised = None
            except Exception as e:
                r, raised = None, e
        finally:
            _restore(saved)
        unchanged = l == list(range(n))
        perm = raised is None and isinstance(r, list) and len(r) == n and sorted(r) == l
        rl = len(r) if isinstance(r, list) else -1
    assert unchanged, "shuffle changed its %d-element argument" % n
    assert raised is not None or perm, "shuffle of a %d-element list returned %d elements / not a permutation" % (n, rl)
    hlib.done()


API = ["rand(a, b)", "rand(l)", "shuffle(l)", "l | shuffle | len", "rand(2, 2)", "rand(1, 10)"]
if isinstance(hlib.PARAM, dict) and "t" in hlib.PARAM:
    prewarm(API[hlib.PARAM["t"]])


def api_rand(a: int, b: int, l: List[int], d1: int, d2: int) -> None:
    """
    pre: a <= b and 1 <= len(l) <= 3
    post: True
    """
    hlib.enter(locals())
    t = hlib.PARAM["t"]
    before = list(l)
    saved = _install([d1, d2], 0.0)
    try:
        out = run_eval(API[t], {'a': a, 'b': b, 'l': l}, 100)
    finally:
        _restore(saved)
    assert out[0] == 'ok', "random builtin failed through eval: %s" % (out[1].__name__ if out[0] == 'err' else '')
    r = out[1]
    if t == 0:
        assert isinstance(r, DecStub) and a <= r.arg <= b
    elif t == 1:
        assert r in before
    elif t == 2:
        assert sorted(r) == sorted(before) and r is not l and l == before
    elif t == 3:
        assert r == len(before) and l == before
    elif t == 4:
        assert isinstance(r, DecStub) and r.arg == 2
    elif t == 5:
        assert isinstance(r, DecStub) and 1 <= r.arg <= 10 and r.arg == int(r.arg)
    hlib.done()


BIGB = [(10 ** 28 + 1, 10 ** 28 + 3), (-10 ** 28 - 3, -10 ** 28 - 1), (10 ** 30, 10 ** 30), (2 ** 64 + 1, 2 ** 64 + 2), (-3, 10 ** 29 + 7), (12345678901234567890123456789, 12345678901234567890123456789)]


def api_rand_big(bi: int, top: bool, form: int) -> None:
    """
    pre: 0 <= bi < 6 and 0 <= form <= 2
    post: True
    """
    # bounds supplied by the host as Python ints of 29+ digits, through the evaluator (names are looked up, not passed directly)
    hlib.enter(locals())
    bi, form = hlib.concrete(bi, 0, 5), hlib.concrete(form, 0, 2)
    with hlib.native():
        a, b = BIGB[bi]
        saved = _install([], 0.0)
        functions.random.near = (0, True if top else False)          # the draw is the upper / lower end of the range the code ASKS for
        try:
            from sqv.api import PARSER as _P
            text = ["rand(a, b)", "a | rand(b)", "x = a\ny = b\nrand(x, y)"][form]
            try:
                r = ('ok', _P.eval(text, {'a': a, 'b': b}))
            except Exception as e:
                r = ('err', type(e).__name__)
        finally:
            _restore(saved)
        val = r[1].arg if r[0] == 'ok' and isinstance(r[1], DecStub) else r[1]
        inside = r[0] == 'ok' and not isinstance(val, str) and a <= val <= b and val == int(val)
    assert r[0] == 'err' or inside, "rand(a, b) with host bounds %d, %d gave %r" % (a, b, val)
    hlib.done()
