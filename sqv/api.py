"""Helpers for harnesses that go through the public API (concrete source text, symbolic everything else)."""
import os

from smartquery import SqParser
from smartquery import ast_ops
from smartquery.exceptions import ParserError, OpsExecutionLimitExceededError

# Constructed at import time (outside CrossHair tracing).  The snapshot is a scratch copy, so the
# gen/*.py files SqParser() rewrites are the snapshot's, never /repo's.
PARSER = SqParser()
# Second parser with a pre-warmed parse cache: the tree is built by the real parser at import time (outside
# tracing), eval() then reaches it through the real SqParser.parse cache-hit path.  Used where parsing is not
# the subject, because PLY's driver under CrossHair's tracer costs ~0.5 s per path.
CACHED = SqParser(parse_cache={})


def prewarm(*texts):
    for t in texts:
        if t is not None:
            try:
                CACHED.parse(t.rstrip())
            except Exception:
                pass

_COUNT = [0]
_WRAPPED = False


def _wrap_all():
    """independent node-evaluation counter: wraps eval of every Op subclass from outside"""
    global _WRAPPED
    if _WRAPPED:
        return
    _WRAPPED = True
    for cls in [ast_ops.Op] + list(ast_ops.Op.__subclasses__()):
        if 'eval' in cls.__dict__ and cls is not ast_ops.Op:
            orig = cls.__dict__['eval']

            def make(orig):
                def eval(self, state):
                    _COUNT[0] += 1
                    return orig(self, state)
                eval.__wrapped__ = orig
                return eval
            cls.eval = make(orig)
    # NoOp (and any class without its own eval) goes straight to Op.eval: count there when reached directly
    base = ast_ops.Op.eval

    def base_eval(self, state):
        if 'eval' not in type(self).__dict__:
            _COUNT[0] += 1
        return base(self, state)
    ast_ops.Op.eval = base_eval


def count_nodes(text, names, budget=10**9):
    """number of node evaluations an unbounded run performs (None, exc) if it fails otherwise"""
    _wrap_all()
    _COUNT[0] = 0
    try:
        CACHED.eval(text, names, max_ops_evaluated=budget)
    except OpsExecutionLimitExceededError:
        raise
    except Exception:
        pass
    return _COUNT[0]


def api_count():
    return _COUNT[0]


def api_reset():
    _wrap_all()
    _COUNT[0] = 0


def run_eval(text, names, n=None, parser=None):
    p = parser or CACHED
    try:
        if n is None:
            v = p.eval(text, names)
        else:
            v = p.eval(text, names, max_ops_evaluated=n)
        return ('ok', v)
    except Exception as e:
        return ('err', type(e), e)


class Probe:
    """host callable t(i, v): logs i, returns v"""

    def __init__(self):
        self.log = []

    def __call__(self, i, v=None):
        self.log.append(i)
        return v
