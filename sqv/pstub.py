"""Stand-ins for PLY's YaccProduction / LexToken / lexer objects, for running grammar actions and lexer rule
functions directly."""


class Sym:
    def __init__(self, type_, value=None):
        self.type = type_
        self.value = value


class Lexer:
    def __init__(self, lineno=1, paren_count=0):
        self.lineno = lineno
        self.paren_count = paren_count
        self.ast = None


class Tok:
    def __init__(self, type_, value, lineno=1, lexer=None, lexpos=0):
        self.type = type_
        self.value = value
        self.lineno = lineno
        self.lexpos = lexpos
        self.lexer = lexer if lexer is not None else Lexer(lineno)


class P:
    """p[0] result slot, p[i] values, p.slice[i].type symbol names, len(p)"""

    def __init__(self, types, values, lexer=None):
        self.slice = [Sym('lhs')] + [Sym(t, v) for t, v in zip(types, values)]
        self.items = [None] + list(values)
        self.lexer = lexer if lexer is not None else Lexer()

    def __getitem__(self, i):
        if isinstance(i, slice):
            return self.items[i]
        return self.items[i]

    def __setitem__(self, i, v):
        self.items[i] = v

    def __len__(self):
        return len(self.items)


def run_action(fn, types, values, lexer=None):
    p = P(types, values, lexer)
    fn(p)
    return p[0]


class NoSuchProduction(Exception):
    pass


_PRODS = None


def load_productions():
    """call at harness import time (outside tracing)"""
    global _PRODS
    from sqv.api import PARSER
    _PRODS = {}
    for p in PARSER.yacc.productions:
        if p.name and p.callable is not None:
            _PRODS[(p.name, tuple(p.prod))] = p.callable
    return _PRODS


def production_fn(lhs, syms):
    """the action the REAL parser tables attach to production `lhs : syms` (so a grammar refactoring that moves a
    production to another p_* function is followed)"""
    if _PRODS is None:
        load_productions()
    fn = _PRODS.get((lhs, tuple(syms)))
    if fn is None:
        raise NoSuchProduction("%s : %s" % (lhs, " ".join(syms)))
    return fn


def run_prod(lhs, syms, values, lexer=None):
    return run_action(production_fn(lhs, syms), list(syms), values, lexer)
