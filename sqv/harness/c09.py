"""C09 harnesses: lazy and/or/if-else; every other operand exactly once, left to right, before the operation."""
from typing import List

from sqv import hlib
from sqv.nodes import Stub, StubRaise, Tok, build, mkstate
from smartquery import ast_ops
from smartquery.ast_ops import Op
from sqv.api import run_eval, prewarm


class _F:
    def __init__(self, log):
        self.log = log

    def __call__(self, *a):
        self.log.append(('call', len(a)))
        return len(a)


def _undefined(idx):
    from smartquery.exceptions import ParserError as _PE
    return _PE('Undefined variable v%d' % idx)


RAISE_KINDS = [None, _undefined, lambda idx: KeyError('v%d' % idx), lambda idx: TypeError('unsupported operand')]


def node_order(nch: int, r0: bool, r1: bool, r2: bool, r3: bool, fail: int, fkind: int = 0) -> None:
    """
    pre: 0 <= nch <= 4 and -1 <= fail <= 7 and 0 <= fkind <= 3
    post: True
    """
    hlib.enter(locals())
    # what a failing child raises: a plain exception, the language's own "undefined variable" ParserError, a KeyError, a TypeError
    fkind = hlib.concrete(fkind, 0, 3)
    hlib.assume(fkind == 0 or fail >= 0)
    from sqv import nodes as _nodes
    _nodes.Stub.RAISE = RAISE_KINDS[fkind]
    del _nodes.LAST_RAISED[:]
    hlib.assume(hlib.deep() or (nch <= 2 and fail <= 3))
    kind, op = hlib.PARAM["kind"], hlib.PARAM["op"]
    log = []
    results = [Tok(r0, 'a'), Tok(r1, 'b'), Tok(r2, 'c'), Tok(r3, 'd')]
    node, stubs = build(kind, op, log, results, nch, fail, value=7)
    host = {'x': _F(log) if kind == 'CallOp' else 5}
    if hlib.PARAM.get("unbound"):
        host = {}
    st = mkstate(0, 10**6, host=host)
    raised = None
    res = None
    try:
        res = node.eval(st)
    except Exception as e:
        raised = e
    finally:
        _nodes.Stub.RAISE = None
    m = len(stubs)
    # expected sequence of child evaluations
    if kind == 'BinOp' and op == 'and':
        exp = [0, 1] if r0 else [0]
    elif kind == 'BinOp' and op == 'or':
        exp = [0] if r0 else [0, 1]
    elif kind == 'IfExprOp':
        exp = [0, 1] if r0 else [0, 2]
    elif kind == 'LambdaOp':
        exp = []          # the body is not evaluated when the lambda is created
    else:
        exp = list(range(m))
    if fail in exp:
        exp = exp[:exp.index(fail) + 1]
    enters = [e[1] for e in log if e[0] == 'enter']
    assert enters == exp, "children evaluated in the wrong order / wrong number of times / not lazily"
    # each child is complete before the next starts (and before the node's own operation)
    flat = [(e[0], e[1]) for e in log if e[0] in ('enter', 'done')]
    for j in range(0, len(flat) - 1, 2):
        assert flat[j][0] == 'enter' and flat[j + 1] == ('done', flat[j][1]), "interleaved child evaluation"
    if hlib.PARAM.get("unbound"):
        # the arguments of a call to an undefined function are still evaluated, in order, before the error is raised
        if fail not in exp:
            from smartquery.exceptions import ParserError as _PE
            assert isinstance(raised, _PE), "call of an undefined function did not raise ParserError"
        else:
            assert _nodes.LAST_RAISED and raised is _nodes.LAST_RAISED[-1], "a failing argument's error was replaced by the undefined-function error"
        hlib.done()
        return
    if fail in exp:
        assert _nodes.LAST_RAISED and raised is _nodes.LAST_RAISED[-1], "a failing operand's error was swallowed or replaced"
        assert ('call', m) not in log and st.names.scopes[-1]['x'] is host['x'], "operation applied although an operand failed"
    else:
        if kind == 'BinOp' and op == 'and':
            assert raised is None and res is (results[1] if r0 else results[0]), "and does not yield the deciding operand"
        if kind == 'BinOp' and op == 'or':
            assert raised is None and res is (results[0] if r0 else results[1]), "or does not yield the deciding operand"
        if kind == 'IfExprOp':
            assert raised is None and res is (results[1] if r0 else results[2]), "if-else does not yield the selected branch"
        if kind == 'CallOp':
            assert log[-1] == ('call', m) and log.count(('call', m)) == 1, "function not called exactly once after its arguments"
    hlib.done()


def _names(a, b, c, probe, l):
    return {'a': a, 'b': b, 'c': c, 't': probe, 'l': l, 'zero': 0, 'one': 1, 'f': lambda *x: len(x),
            'boom': None, 'dd': {'k': 1}}


class P:
    """host probe t(i, v): logs i, returns v; t(i) returns i; raises when i == fail"""

    def __init__(self, fail):
        self.log = []
        self.fail = fail

    def __call__(self, i, v=None):
        self.log.append(int(i))
        if int(i) == self.fail:
            raise StubRaise(i)
        return v


# (text, expected log as a function of (a, b, c)); probes are numbered in source order
TEMPLATES = [
    ("t(1, c) and t(2, a) or t(3, b)", lambda a, b, c: [1, 2] + ([] if a else [3]) if c else [1, 3]),
    ("t(1, a) if t(2, c) else t(3, b)", lambda a, b, c: [2, 1] if c else [2, 3]),
    ("f(t(1), t(2, a), t(3))", lambda a, b, c: [1, 2, 3]),
    ("[t(1), t(2), t(3)]", lambda a, b, c: [1, 2, 3]),
    ("{t(1, 'k'): t(2), t(3, 'j'): t(4)}", lambda a, b, c: [1, 2, 3, 4]),
    ("t(1, l)[t(2, zero):t(3, one)]", lambda a, b, c: [1, 2, 3]),
    ("t(1, l)[::t(2, one)]", lambda a, b, c: [1, 2]),
    ("t(1, l)[t(2, zero)] = t(3, a)", lambda a, b, c: [1, 2, 3]),
    ("t(1, l)[t(2, zero)] += t(3, a)", lambda a, b, c: [1, 2, 3]),
    ("t(1, l).push(t(2))", lambda a, b, c: [1, 2]),
    ("t(1, l) | map(v => t(2, v))", lambda a, b, c: [1, 2, 2]),
    ("del t(1, l)[t(2, zero)]", lambda a, b, c: [1, 2]),
    ("t(1, a) + t(2, b) - t(3, a) == t(4, b)", lambda a, b, c: [1, 2, 3, 4]),
    ("x = t(1, a)\nx += t(2, b)\nt(3, x)", lambda a, b, c: [1, 2, 3]),
    ("(t(1, c) or t(2, c)) and not t(3, c)", lambda a, b, c: [1, 3] if c else [1, 2]),
    ("t(1, zero) in [t(2), t(3, zero)]", lambda a, b, c: [1, 2, 3]),
    ("-t(1, a) ** t(2, one)", lambda a, b, c: [1, 2]),
    # syntactically identical subexpressions are still evaluated each time they occur
    ("t(1, c) if t(1, c) else t(2, a)", lambda a, b, c: [1, 1] if c else [1, 2]),
    ("t(1, c) or t(1, c)", lambda a, b, c: [1] if c else [1, 1]),
    ("t(1, c) and t(1, c)", lambda a, b, c: [1, 1] if c else [1]),
    ("[t(1, a), t(1, a)] | len", lambda a, b, c: [1, 1]),
    ("t(1, a) + t(1, a) == t(1, a) * one", lambda a, b, c: [1, 1, 1]),
    ("{t(1, 'k'): t(1, 'k')}", lambda a, b, c: [1, 1]),
    ("nosuch(t(1), t(2, a))", lambda a, b, c: [1, 2]),
    ("t(1, l).nosuch(t(2))", lambda a, b, c: [1, 2]),
    ("t(1) | nosuch", lambda a, b, c: [1]),
    # membership in a list literal: every element is evaluated, also after a match
    ("t(1, zero) in [t(2, zero), t(3), t(4, zero)]", lambda a, b, c: [1, 2, 3, 4]),
    ("t(1, zero) not in [t(2, zero), t(3)]", lambda a, b, c: [1, 2, 3]),
    ("[t(1, zero)] in [[t(2, zero)], [t(3)]]", lambda a, b, c: [1, 2, 3]),
    ("t(1, 'k') in {t(2, 'k'): t(3), t(4, 'j'): t(5)}", lambda a, b, c: [1, 2, 3, 4, 5]),
    # slices with a computed bound next to a literal one; three-argument get: every argument is evaluated, before the call
    ("t(1, l)[t(2, zero):1]", lambda a, b, c: [1, 2]),
    ("t(1, l)[zero:t(2, one)]", lambda a, b, c: [1, 2]),
    ("[zero, one] | map(v => t(1, l)[t(2, v):2]) | len", lambda a, b, c: [1, 2, 1, 2]),
    ("get(t(1, dd), t(2, 'k'), t(3))", lambda a, b, c: [1, 2, 3]),
    ("get(t(1, dd), t(2, 'zz'), t(3))", lambda a, b, c: [1, 2, 3]),
    ("t(1, dd) | get(t(2, 'k'), t(3))", lambda a, b, c: [1, 2, 3]),
    # dict literals: every key and value expression is evaluated, also for keys that repeat
    ("{'a': t(1), 'b': t(2), 'a': t(3)}", lambda a, b, c: [1, 2, 3]),
    ("{1: t(1), '1': t(2), 1.0: t(3)}", lambda a, b, c: [1, 2, 3]),
    ("{t(1, 'k'): t(2), 'k': t(3), t(4, 'k'): t(5)}", lambda a, b, c: [1, 2, 3, 4, 5]),
    ("[t(1), t(1), t(1)] | len", lambda a, b, c: [1, 1, 1]),
    # multiplication: both operands are evaluated before the operation is refused
    ("t(1, 'x') * t(2, a)", lambda a, b, c: [1, 2]),
    ("t(1, None) * t(2)", lambda a, b, c: [1, 2]),
    ("x = 's'\nx *= t(1, a)", lambda a, b, c: [1]),
    ("t(1, l) * t(2) + t(3)", lambda a, b, c: [1, 2]),
    # a name that cannot be resolved anywhere in a condition / operand ends the evaluation there
    ("t(1, a) if nosuch else t(2, b)", lambda a, b, c: []),
    ("t(1, a) if (t(2, c) and nosuch) else t(3, b)", lambda a, b, c: [2] if c else [2, 3]),
    ("(nosuch or t(1, a)) and t(2, b)", lambda a, b, c: []),
    ("[t(1), nosuch, t(2)]", lambda a, b, c: [1]),
    ("t(1, l) | map(v => nosuch + t(2, v))", lambda a, b, c: [1]),
    ("t(1, a) if t(2, l)[t(3, one) + one] else t(4, b)", lambda a, b, c: [2, 3]),
]
if isinstance(hlib.PARAM, dict) and "t" in hlib.PARAM:
    prewarm(TEMPLATES[hlib.PARAM["t"]][0])


def api_order(a: int, b: int, c: bool, fail: int) -> None:
    """
    pre: 0 <= fail <= 4
    post: True
    """
    hlib.enter(locals())
    text, expf = TEMPLATES[hlib.PARAM["t"]]
    p = P(fail)
    # the same tree may have been evaluated before (parse cache, lambda bodies): evaluate it once beforehand
    run_eval(text, _names(a, b, c, P(fail), [10, 20]), 10**6)
    out = run_eval(text, _names(a, b, c, p, [10, 20]), 10**6)
    exp = expf(a, b, c)
    if fail in exp:
        exp = exp[:exp.index(fail) + 1]
        assert out[0] == 'err' and out[1] is StubRaise, "error raised by an operand was swallowed or replaced"
    assert p.log == exp, "probes ran in the wrong order / wrong number of times"
    if ('nosuch' in text or 'one) + one]' in text) and not (fail in exp):
        from smartquery.exceptions import ParserError as _PE
        if not (text.startswith("t(1, a) if (t(2, c)") and not c):
            assert out[0] == 'err' and out[1] is _PE, "a failing name lookup / index did not end the evaluation with a ParserError"
    if hlib.PARAM["t"] == 0 and out[0] == 'ok':
        want = (a if a else b) if c else b          # `c and a or b` yields the deciding operand ITSELF
        assert out[1] is want or (type(out[1]) is type(want) and out[1] == want and not isinstance(want, int)), \
            "and/or do not yield the deciding operand itself (type %s instead of %s)" % (type(out[1]).__name__, type(want).__name__)
    hlib.done()
