"""C17 harnesses: the parse cache is transparent; evaluation never alters a tree."""
import copy as _copy
import dataclasses

from sqv import hlib
from sqv.nodes import build, mkstate, Tok, Stub
from smartquery import SqParser, ast_ops
from smartquery.ast_ops import Op
from sqv.api import PARSER
from smartquery.functions import FUNCTIONS


def _shape(node):
    """structural snapshot of a node's own fields: lists/tuples are copied one level, children kept by identity"""
    out = []
    for f in dataclasses.fields(node):
        v = getattr(node, f.name)
        if isinstance(v, list):
            out.append((f.name, [tuple(x) if isinstance(x, tuple) else x for x in v]))
        else:
            out.append((f.name, v))
    return out


def _same(a, b):
    if len(a) != len(b):
        return False
    for (n1, v1), (n2, v2) in zip(a, b):
        if n1 != n2:
            return False
        if isinstance(v1, list):
            if not isinstance(v2, list) or len(v1) != len(v2):
                return False
            for x, y in zip(v1, v2):
                if isinstance(x, tuple):
                    if len(x) != len(y) or any(p is not q for p, q in zip(x, y)):
                        return False
                elif x is not y:
                    return False
        elif v1 is not v2:
            return False
    return True


def node_unaltered(nch: int, r0: bool, r1: bool, fail: int, calls: int) -> None:
    """
    pre: 0 <= nch <= 2 and -1 <= fail <= 3 and 1 <= calls <= 2
    post: True
    """
    hlib.enter(locals())
    kind, op = hlib.PARAM["kind"], hlib.PARAM["op"]
    log = []
    node, stubs = build(kind, op, log, [Tok(r0), Tok(r1), Tok(True), Tok(True)], nch, fail, value='lit')
    before = _shape(node)
    attrs_before = dict(vars(node))
    host = {'x': (lambda *a: [list(a)]) if kind == 'CallOp' else 5, 'p0': 1}
    if kind == 'CallOp' and hlib.PARAM.get("builtin"):
        node.name = 'list'          # a call site that resolves to a real builtin of the function table
        attrs_before = dict(vars(node))
        before = _shape(node)
    results = []
    for _ in range(calls):
        try:
            results.append(node.eval(mkstate(0, 10**6, host=dict(host), functions=dict(FUNCTIONS))))
        except Exception:
            pass
    assert _same(before, _shape(node)), "evaluation altered the syntax tree node (%s)" % kind
    after = vars(node)
    assert set(after) == set(attrs_before) and all(after[k] is attrs_before[k] for k in after), \
        "evaluation stored something on the syntax tree node (%s)" % kind
    # results of two evaluations of a container-building node never share the container
    if len(results) == 2 and isinstance(results[0], (list, dict)):
        assert results[0] is not results[1], "two evaluations of the same node returned the same mutable container"
    # a result never IS a mutable field of the tree
    for r in results:
        for f in dataclasses.fields(node):
            v = getattr(node, f.name)
            if isinstance(v, (list, dict)):
                assert r is not v, "evaluation returned a mutable part of the tree"
    hlib.done()


TEXTS = [
    "a + 1",
    " a + 1",
    "a + 1 ",
    "a + 1\n",
    "\ra + 1",
    "[[1, 2], ['a']]",
    "x = [[1], {'k': [2]}]\nx",
    "1 +",
    "a +\n1",
    "{'k': [1, [2]]}",
    "a + 1",
    "[1, [a]] | map(v => v)",
    "len([a, 1]) + a",
]


class Cache(dict):
    """host-supplied MutableMapping; the harness decides when it forgets everything (models LRU / unbounded /
    pre-warmed caches) and whether it stores at all (always-evicting / zero-capacity caches drop what they are given)"""
    stores = True

    def __setitem__(self, k, v):
        if self.stores:
            super().__setitem__(k, v)


def _mutate(v, depth=0):
    """the host mutates a result it got from an earlier evaluation, in place and deeply"""
    if depth > 4:
        return
    if isinstance(v, list):
        for x in list(v):
            _mutate(x, depth + 1)
        v.append('host')
    elif isinstance(v, dict):
        for x in list(v.values()):
            _mutate(x, depth + 1)
        v['host'] = 'host'


def _run(parser, cache, steps, mutate, shadow_step=-1):
    out = []
    names = {'a': 1}
    for si, (ti, use_eval, evict) in enumerate(steps):
        if si == shadow_step:
            names = dict(names)
            names['len'] = _shadow_len          # this call's names shadow a builtin
        elif 'len' in names:
            names = {k: v for k, v in names.items() if k != 'len'}
        if evict and cache is not None:
            cache.clear()
        t = TEXTS[ti] if isinstance(ti, int) else ti
        try:
            if use_eval:
                v = parser.eval(t, names, max_ops_evaluated=100)
                out.append(('ok', repr(v), sorted(names)))
                if mutate:
                    _mutate(v)
            else:
                tree = parser.parse(t)
                out.append(('ok', repr(tree)))
        except Exception as e:
            out.append(('err', type(e).__name__, str(e)))
            if mutate:
                e.args = ('host note: ' + str(e),)          # a host that decorates the errors it catches
    return out


with hlib.native(unwalled=True):
    _CACHE = Cache()
    _CACHED = SqParser(parse_cache=_CACHE)
    _PLAIN = SqParser()
    _INITIAL = dict(_CACHE)          # whatever constructing the parser put into the host's mapping


def _keys_are_sources():
    """every string key present in the host's mapping is a possible source text: it parses and evaluates the same with
    and without the cache (returns a message or None)"""
    for k in list(_CACHE.keys()):
        if not isinstance(k, str):
            continue
        a = _run(_CACHED, _CACHE, [(k, False, False), (k, True, False)], False)
        b = _run(_PLAIN, None, [(k, False, False), (k, True, False)], False)
        if a != b:
            return "the cache holds the key %r; as a source text it behaves differently with the cache (%r) than without (%r)" % (k, a, b)
    return None


def _shadow_len(x):
    return 99


def cache_sequence(t2: int, t3: int, e2: bool, e3: bool, k1: bool, k3: bool, mutate: bool, warm: bool, stores: bool, sh: int) -> None:
    """
    pre: 0 <= t2 < 13 and 0 <= t3 < 13 and -1 <= sh <= 2
    post: True
    """
    hlib.enter(locals())
    t1 = hlib.PARAM["t1"]
    if hlib.PARAM.get("quick"):
        hlib.assume(t3 == t1)          # quick tier: the third call repeats the first
    t2, t3, sh = hlib.concrete(t2, 0, 12), hlib.concrete(t3, 0, 12), hlib.concrete(sh, -1, 2)
    if hlib.PARAM.get("quick"):
        hlib.assume(sh == -1 or t1 == 12)          # quick tier: builtin shadowing only on the builtin-calling text
        hlib.assume(t1 != 12 or t2 in (0, 5, 12))
    else:
        # thorough tier: the third call revisits one of the earlier texts or one of two others (13 x 4 schedules per first text)
        hlib.assume(t3 in (t1, t2, (t1 + 1) % 13, (t2 + 5) % 13))
        hlib.assume(sh == -1 or 12 in (t1, t2, t3))
    steps = [(t1, True if k1 else False, False), (t2, True, True if e2 else False), (t3, True if k3 else False, True if e3 else False)]
    mutate, warm = (True if mutate else False), (True if warm else False)
    with hlib.native():
        _CACHE.stores = True
        _CACHE.clear()
        if warm:
            for t in TEXTS:
                try:
                    _CACHED.parse(t)
                except Exception:
                    pass
        _CACHE.stores = True if stores else False
        got = _run(_CACHED, _CACHE, steps, mutate, sh)
        exp = _run(_PLAIN, None, steps, mutate, sh)
        _CACHE.stores = True
    assert got == exp, "a parser with a parse cache behaves differently from one without"
    hlib.done()


# pairs of texts where the first call must not influence the second: near-duplicates (differences that matter) and a
# failing text that leaves lexer state behind followed by a text sensitive to it
PAIRS = [
    ("%order total% + 1", "%order  total% + 1"), ("%a\tb%", "%a b%"), ("'a  b' + s", "'a b' + s"), ("x = 1 # c", "x = 1"),
    ("s + \"a\"", "s + 'A'"), (" 1", "1"), ("%a.b%", "%a .b%"), ("[1,2]", "[1, 2]"), ("a\n-1", "a -1"), ("a;b", "a\nb"),
    ("push(x, [1, 2", "x = 5\n-2"), ("f(1,\n(2", "y = a\n[1]\n(y)"), ("{'k': [1,", "a\n- a"), ("x = (", "1\n2\n+3"),
    ("a $ 1", "a\n+ 1"), ("'unterminated", "a\n'b'"), ("for", "a\nfor_ = 1"), ("(((", ")"), ("a +", "a +"), ("1 +", "1 + 1"),
    ("__ast_format__", "__version__"), ("", " "), ("\n", ""), ("#", "# \n"),
    ("1" + " + 1" * 250, "1 + 1"), ("[" * 120 + "1" + "]" * 120, "[[1]]"), ("rows [0]", "rows\n[0]"), ("len (x)", "len\n(x)"), ("a # then b", "a # then\nb"),
    ("a = 1\nb = (", "a"), ("n += 1\ntotal = (", "n = 5\nn"), ("x = 1; y = $", "x"),
]


def pair_sequence(pi: int, swap: bool, warm: int, stores: bool, e1: bool, e2: bool, repeat: bool) -> None:
    """
    pre: 0 <= pi < 32 and 0 <= warm <= 2
    post: True
    """
    hlib.enter(locals())
    pi, warm = hlib.concrete(pi, 0, 31), hlib.concrete(warm, 0, 2)
    first, second = PAIRS[pi][::-1] if swap else PAIRS[pi]
    e1, e2, repeat = (True if e1 else False), (True if e2 else False), (True if repeat else False)
    steps = [(first, e1, False), (second, e2, False)] + ([(first, e1, False), (second, not e2, False)] if repeat else [])
    with hlib.native():
        _CACHE.stores = True
        for _p in (_CACHED, _PLAIN):          # every path starts after one successful call on both parsers
            try:
                _p.parse("0")
            except Exception:
                pass
        _CACHE.clear()
        _CACHE.update(_INITIAL)          # the host's mapping as the constructor left it
        for t in ([second] if warm == 1 else [first, second] if warm == 2 else []):          # pre-warmed entries
            try:
                _CACHED.parse(t)
            except Exception:
                pass
        _CACHE.stores = True if stores else False
        names0 = {'a': 1, 's': 'q', '%order total%': 1, '%order  total%': 2, '%a b%': 3, '%a\tb%': 4, '%a.b%': 5, '%a .b%': 6, 'x': [0]}
        got, exp = [], []
        for (t, ev, _) in steps:
            for parser, sink in ((_CACHED, got), (_PLAIN, exp)):
                nm = dict(names0)
                try:
                    if ev:
                        sink.append(('ok', repr(parser.eval(t, nm, max_ops_evaluated=100)), sorted(nm)))
                    else:
                        sink.append(('ok', repr(parser.parse(t))))
                except Exception as e:
                    sink.append(('err', type(e).__name__, str(e)))
        _CACHE.stores = True
        bad_key = _keys_are_sources()
        _CACHE.clear()
    assert got == exp, "after %r, %r behaves differently with a parse cache (%r) than without (%r)" % (first, second, got, exp)
    assert bad_key is None, bad_key
    hlib.done()


# ---- the tree of a lambda is the same before and after calls of the closure, however deep they nest and however they end
class ReBody(Op):
    """lambda body stand-in: calls the closure again until a given depth, then returns or raises"""

    def __init__(self):
        self.closure = None
        self.remaining = 0
        self.fail_at_bottom = False

    def eval(self, state):
        Op.eval(self, state)
        if self.remaining > 0:
            self.remaining -= 1
            return self.closure(1)
        if self.fail_at_bottom:
            raise ValueError("bottom")
        return 0


DEPTHS = [1, 3, 60, 70, 130, 260]


def lambda_reentry(di: int, fail: bool, times: int) -> None:
    """
    pre: 0 <= di < 6 and 1 <= times <= 3
    post: True
    """
    hlib.enter(locals())
    di, times = hlib.concrete(di, 0, 5), hlib.concrete(times, 1, 3)
    fail = True if fail else False
    with hlib.native():
        from smartquery.ast_ops import LambdaOp, NameOp
        body = ReBody()
        node = LambdaOp(args=[NameOp('p')], expr=body)
        st = mkstate(0, 10**7, host={})
        f = node.eval(st)
        body.closure = f
        body.fail_at_bottom = fail

        def plain(n):
            return {k: v for k, v in vars(n).items() if not callable(v) and k != 'expr'}
        before = _copy.deepcopy(plain(node))
        outcomes = []
        for _ in range(times):
            body.remaining = DEPTHS[di]
            try:
                f(1)
                outcomes.append('ok')
            except RecursionError:
                outcomes.append('recursion')
            except Exception as e:
                outcomes.append(type(e).__name__)
        after = plain(node)
        depth_left = len(st.names.scopes)
        # a shallow call afterwards behaves like the first shallow call would
        body.remaining, body.fail_at_bottom = 1, False
        try:
            f(1)
            last = 'ok'
        except Exception as e:
            last = type(e).__name__
    assert after == before, "calls of a lambda's closure (nesting %d deep, ending with %s) left the tree node changed: %r -> %r" % (DEPTHS[di], outcomes, before, after)
    assert depth_left == 2, "scopes leaked after nested lambda calls"
    assert last == 'ok', "after calls nesting %d deep (%s) a shallow call of the same lambda fails with %s" % (DEPTHS[di], outcomes, last)
    hlib.done()


DEFS = ["[]", "{}", "[0, 0, 0]", "{'k': []}", "[[1], {'j': 2}]"]
USES = ["p.push(1)\nq", "p\nq", "[p, q]", "p == q"]


def ast_names_identity(di: int, ui: int, n: int) -> None:
    """
    pre: 0 <= di < 5 and 0 <= ui < 4 and 5 <= n <= 40
    post: True
    """
    # two names defined (through ast_names) by separate parses of the SAME text: with a cache both parses give one
    # tree object, without it two equal ones - the evaluation must not be able to tell
    hlib.enter(locals())
    di, ui, n = hlib.concrete(di, 0, 4), hlib.concrete(ui, 0, 3), hlib.concrete(n, 5, 40)
    with hlib.native():
        res = []
        for parser in (_CACHED, _PLAIN):
            _CACHE.stores = True
            _CACHE.clear()
            try:
                astn = {'p': parser.parse(DEFS[di]), 'q': parser.parse(DEFS[di])}
                nm = {}
                v = parser.eval(USES[ui], nm, ast_names=astn, max_ops_evaluated=n)
                res.append(('ok', repr(v), repr(sorted((k, repr(x)) for k, x in nm.items() if not callable(x))),
                            nm.get('p') is not None and nm.get('p') is nm.get('q')))
            except Exception as e:
                res.append(('err', type(e).__name__))
        _CACHE.clear()
    assert res[0] == res[1], "ast_names with two parses of %r, then %r under budget %d: with a parse cache %r, without %r" % (DEFS[di], USES[ui], n, res[0], res[1])
    hlib.done()
