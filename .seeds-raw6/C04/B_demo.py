import sys, os; sys.path.insert(0, os.getcwd())

import decimal
import subprocess
import threading
from decimal import Decimal

import smartquery
from smartquery import SqParser

assert smartquery.__file__.startswith(os.getcwd()), smartquery.__file__

A = Decimal('0.3333333333333333333333333333')   # 28 digits
B = Decimal('0.7777777777777777777777777777')   # 28 digits; the exact product has 56

PROGRAMS = [
    ('a * b', lambda names, res: res),
    ('a ** b', lambda names, res: res),
    ('2 ** 0.5', lambda names, res: res),
    ('a *= b', lambda names, res: names['a']),
    ('o["k"] *= b', lambda names, res: names['o']['k']),
    ('[a, b, 3] | reduce((x, y) => x * y)', lambda names, res: res),
]


def check(parser, where):
    """every product / power evaluated here, under an untouched default context, has <= 28 digits"""
    ctx = decimal.getcontext()
    assert ctx.prec == 28, (where, ctx)          # the evaluating thread's context is the default one
    for expr, pick in PROGRAMS:
        names = {'a': A, 'b': B, 'o': {'k': A}}
        value = pick(names, parser.eval(expr, names=names))
        n = len(value.as_tuple().digits)
        assert n <= 28, f'{where}: {expr!r} gave a number with {n} digits: {value}'


parser = SqParser()
check(parser, 'main thread')

# Scenario 1: the host keeps its own high-precision bookkeeping in the main thread (the usual
# `getcontext().prec = N` idiom) and evaluates expressions in worker threads, each of which has
# its own, default, 28-digit decimal context.
decimal.getcontext().prec = 60
errors = []


def worker():
    try:
        check(parser, 'worker thread')
        check(SqParser(), 'worker thread, own parser')
    except BaseException as e:      # noqa
        errors.append(e)


t = threading.Thread(target=worker)
t.start()
t.join()
decimal.getcontext().prec = 28
if errors:
    raise errors[0]

# Scenario 2: the package is imported for the first time (lazily) while the host is inside a
# high-precision localcontext() block; the expressions are evaluated later, outside the block.
CHILD = r'''
import sys, os; sys.path.insert(0, os.getcwd())
import decimal
from decimal import Decimal
with decimal.localcontext() as ctx:
    ctx.prec = 60
    import smartquery
    from smartquery import SqParser
assert smartquery.__file__.startswith(os.getcwd()), smartquery.__file__
assert decimal.getcontext().prec == 28
names = {'a': Decimal('0.3333333333333333333333333333'), 'b': Decimal('0.7777777777777777777777777777')}
for expr in ('a * b', 'a ** b', '2 ** 0.5'):
    res = SqParser().eval(expr, names=dict(names))
    n = len(res.as_tuple().digits)
    assert n <= 28, f'lazy import: {expr!r} gave a number with {n} digits: {res}'
'''
proc = subprocess.run([sys.executable, '-c', CHILD], cwd=os.getcwd(), capture_output=True, text=True)
assert proc.returncode == 0, proc.stderr[-600:]

print('ok')
