import sys, os; sys.path.insert(0, os.getcwd())
import copy

import smartquery
from smartquery import SqParser

assert smartquery.__file__.startswith(os.getcwd()), smartquery.__file__

parser = SqParser()


def check(expr, names, expected=...):
    before = copy.deepcopy(names)
    res = parser.eval(expr, names=names, max_ops_evaluated=1000)
    if expected is not ...:
        assert res == expected, (expr, res)
    assert names == before, f'{expr!r} changed its arguments: {before} -> {names}'


# reduce over a host-supplied list of lists (flattening): the non-mutator reduce must leave the rows alone
check('rows | reduce((acc, v) => acc + v)', {'rows': [[1, 2], [3], [4, 5]]}, [1, 2, 3, 4, 5])

# map with a key function that builds a new list out of every element
check('rows | map(r => r + [0])', {'rows': [[1], [2]]}, [[1, 0], [2, 0]])

# sorted on a dict with a key function concatenating the values
check('sorted(d, (k, v) => len(v + [k]))', {'d': {'a': [1, 2], 'b': [3]}})

# filter in a pipeline
check('rows | filter(r => len(r + r) > 2) | map(r => len(r))', {'rows': [[1], [2, 3]]}, [2])

print('ok')
