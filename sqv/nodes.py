"""Stub child nodes and generic construction of real node objects for one-step harnesses."""
import dataclasses
import typing

from smartquery import ast_ops
from smartquery.ast_ops import Op
from smartquery.scoped_dict import ScopedDict
from smartquery.vm_state import VMState


class StubRaise(Exception):
    """What a stub child raises when told to fail (an ordinary Exception that is not a ParserError)."""


LAST_RAISED = []          # exception objects raised by failing stubs (identity is compared by the harnesses)


class Stub(Op):
    """Child node stand-in: charges the counter through the REAL Op.eval, logs, returns a given value."""
    RAISE = None          # factory idx -> exception for failing stubs (default StubRaise)

    def __init__(self, log, idx, result=None, raises=False):
        self.log = log
        self.idx = idx
        self.result = result
        self.raises = raises

    def eval(self, state):
        self.log.append(('enter', self.idx, state.ops_evaluated))
        Op.eval(self, state)
        self.log.append(('done', self.idx))
        if self.raises:
            exc = (Stub.RAISE or StubRaise)(self.idx)
            LAST_RAISED.append(exc)
            raise exc
        return self.result

    def __repr__(self):
        return f"Stub({self.idx})"


BIN_OPS = ['+', '-', '*', '**', '/', '==', '!=', '>', '<', '>=', '<=', 'not in', 'in', 'and', 'or']
SHORT_OPS = ['+=', '-=', '*=', '/=']
UN_OPS = ['-', 'not']


def node_kinds():
    return sorted(c.__name__ for c in Op.__subclasses__() if c.__module__ == ast_ops.__name__)


def mkstate(k=0, n=100, host=None, functions=None):
    sd = ScopedDict(dict(functions or {}))
    sd.push_scope(host if host is not None else {})
    st = VMState(names=sd, max_ops_evaluated=n)
    st.ops_evaluated = k
    return st


# ---------------------------------------------------------------------------------------------
# operator strings are read from the eval() source of the class (comparisons of self.op with constants)
def ops_of(cls):
    import ast
    import inspect
    import textwrap
    try:
        src = textwrap.dedent(inspect.getsource(cls.eval))
    except (OSError, TypeError):
        return []
    out = []
    for n in ast.walk(ast.parse(src)):
        if isinstance(n, ast.Compare) and isinstance(n.left, ast.Attribute) and n.left.attr == 'op' \
                and isinstance(n.left.value, ast.Name) and n.left.value.id == 'self':
            for c in n.comparators:
                if isinstance(c, ast.Constant) and isinstance(c.value, str) and c.value not in out:
                    out.append(c.value)
    return out


def kind_params():
    """[(kind, op-or-None)] for every node class of the snapshot; classes with an 'op' field get one entry per
    operator string their eval() compares against, plus one unknown operator."""
    out = []
    for name in node_kinds():
        cls = getattr(ast_ops, name)
        fields = {f.name for f in dataclasses.fields(cls)} if dataclasses.is_dataclass(cls) else set()
        if 'op' in fields:
            for o in ops_of(cls) + ['@@']:
                out.append({"kind": name, "op": o})
        else:
            out.append({"kind": name, "op": None})
    return out


class Uncovered(Exception):
    pass


def build(kind, op, log, results, nch, fail=-1, value=0):
    """Real node of class `kind` whose Op-typed fields are Stub children.
    Returns (node, stubs) with stubs in field order (= source order of the operands).
    results: list of values the stubs return (indexable, len >= 4); nch: length for list-typed fields."""
    cls = getattr(ast_ops, kind)
    hints = typing.get_type_hints(cls)
    stubs = []

    def stub():
        i = len(stubs)
        s = Stub(log, i, results[i % len(results)] if results else None, raises=(i == fail))
        stubs.append(s)
        return s

    kw = {}
    for f in dataclasses.fields(cls):
        if not f.init:
            continue            # not a constructor argument (derived / cache field)
        t = hints.get(f.name)
        if f.name == 'op' and t is str:
            kw['op'] = op
        elif f.name == 'name' and t is str:
            kw['name'] = 'x'
        elif t is Op:
            kw[f.name] = stub()
        elif t == typing.List[Op] or (t is list and f.name == 'args'):
            kw[f.name] = [stub() for _ in range(nch)]
        elif t == typing.List[tuple]:
            kw[f.name] = [(stub(), stub()) for _ in range(nch)]
        elif t == typing.List[ast_ops.NameOp]:
            kw[f.name] = [ast_ops.NameOp('p%d' % i) for i in range(nch)]
        elif t is typing.Any:
            kw[f.name] = value
        elif f.default is not dataclasses.MISSING or f.default_factory is not dataclasses.MISSING:
            continue            # optional field of a kind the builder does not know: leave its default
        else:
            raise Uncovered(f"{kind}.{f.name}: {t}")
    try:
        return cls(**kw), stubs
    except TypeError as e:
        raise Uncovered(f"{kind}: {e}")


def list_fields(kind):
    """max children multiplicity: 1 if the kind has a list-typed field of children, else 0"""
    cls = getattr(ast_ops, kind)
    hints = typing.get_type_hints(cls)
    return any(typing.get_origin(hints.get(f.name)) is list or hints.get(f.name) is list
               for f in dataclasses.fields(cls))


class Tok:
    """Opaque child result: supports every operator (result: a fresh Tok), truthiness is a (symbolic) bool."""

    def __init__(self, truth=True, tag='t'):
        self.truth = truth
        self.tag = tag

    def __bool__(self):
        return True if self.truth else False

    def _bin(self, other):
        return Tok(True, 'r')

    __add__ = __radd__ = __sub__ = __rsub__ = __mul__ = __rmul__ = __truediv__ = __rtruediv__ = _bin
    __pow__ = __rpow__ = __iadd__ = __isub__ = __imul__ = __itruediv__ = _bin
    __lt__ = __le__ = __gt__ = __ge__ = _bin

    def __neg__(self):
        return Tok(True, 'n')

    def __contains__(self, item):
        return True

    def __int__(self):
        return 1

    def __index__(self):
        return 1

    def __hash__(self):
        return id(self)

    def __str__(self):
        return 'tok'

    __repr__ = __str__
