import sys, os; sys.path.insert(0, os.getcwd())

from decimal import Decimal

import smartquery
from smartquery import SqParser

assert smartquery.__file__.startswith(os.getcwd()), smartquery.__file__

p = SqParser()

# ordinary forms of round(): half-even, exact
assert p.eval('round(2/3, 2)') == Decimal('0.67')
assert p.eval('round(2.5)') == 2
assert p.eval('round(3.5)') == 4
assert p.eval('round(2.675, 2)') == Decimal('2.68')
assert p.eval('round(0.125, 2)') == Decimal('0.12')
assert p.eval('round(1234.5678, 0)') == 1235

# negative number of digits: round to tens / hundreds / thousands (half-even)
assert p.eval('round(1234.5678, -2)') == 1200, p.eval('round(1234.5678, -2)')
assert p.eval('round(1250, -2)') == 1200
assert p.eval('round(1350, -2)') == 1400
assert p.eval('round(15, -1)') == 20
assert p.eval('round(0.1 + 0.2 + 1999.7, -3)') == 2000
assert p.eval('1234.5678 | round(-1)') == 1230
assert p.eval('round(1250, 0 - 2) == 1200') is True

print('ok')
