"""Replay a recorded counterexample with plain Python (no CrossHair, no solver) against the snapshot on
PYTHONPATH.  Prints 'REPLAY {json}'.  reproduced=True iff the harness assertion fails (or an undeclared
exception escapes) for the concrete arguments the solver produced."""
import importlib
import json
import os
import sys
import traceback


def main():
    rec = json.load(open(sys.argv[1]))
    os.environ["SQV_MODE"] = "replay"
    from sqv import hlib
    hlib.PARAM = rec.get("param")
    hlib.TIER = rec.get("tier") or "quick"
    hlib.EXCLUDES = []
    hlib.TWIN = False
    if rec["kind"] == "z3":
        mod = importlib.import_module("sqv." + rec["harness"])
        ok, outcome = mod.replay(rec)
        print("REPLAY " + json.dumps({"reproduced": bool(ok), "outcome": outcome}))
        return
    mod = importlib.import_module("sqv.harness." + rec["harness"])
    fn = getattr(mod, rec["fn"])
    call = rec.get("call")
    if not call:
        print("REPLAY " + json.dumps({"reproduced": False, "outcome": "no call recorded: " + str(rec.get("engine_message"))[:200]}))
        return
    ns = dict(vars(mod))
    ns["_cap"] = lambda *a, **k: (a, k)
    ns.setdefault("float", float)
    ns["nan"] = float("nan")
    ns["inf"] = float("inf")
    try:
        a, k = eval("_cap" + call[call.index("("):], ns)
    except Exception as e:
        print("REPLAY " + json.dumps({"reproduced": False, "outcome": f"cannot rebuild arguments from {call!r}: {e!r}"}))
        return
    try:
        fn(*a, **k)
    except hlib.ReplaySkip as e:
        print("REPLAY " + json.dumps({"reproduced": False, "outcome": "assumption violated: " + str(e)}))
        return
    except (AttributeError, TypeError) as e:
        # the code under test needed something from a harness stand-in (stub lexer/token/production/regex/random/
        # Decimal object) that the stand-in does not provide: a limitation of the harness, not a property violation
        tb = traceback.extract_tb(e.__traceback__)
        where = f"{os.path.basename(tb[-1].filename)}:{tb[-1].lineno}" if tb else "?"
        standins = ("'Lexer' object", "'Tok' object", "'P' object", "'Sym' object", "'StubLexer' object", "'RegexStub' object",
                    "'RandStub' object", "'DecStub' object", "'FakeMatch' object", "'_Tok' object", "'_Lexer' object", "'_P' object",
                    "'Stub' object", "'LenDict' object", "'SizedList' object", "'SizedStr' object")
        if isinstance(e, AttributeError) and any(x in str(e) for x in standins):
            print("REPLAY " + json.dumps({"reproduced": False,
                                          "outcome": f"harness stand-in incomplete for this code ({e} @ {where}): obligation not applicable"}))
            return
        print("REPLAY " + json.dumps({"reproduced": True,
                                      "outcome": f"{type(e).__name__}: {e} @ {where} args={call}"}))
        return
    except Exception as e:
        tb = traceback.extract_tb(e.__traceback__)
        where = f"{os.path.basename(tb[-1].filename)}:{tb[-1].lineno}" if tb else "?"
        print("REPLAY " + json.dumps({"reproduced": True,
                                      "outcome": f"{type(e).__name__}: {e} @ {where} args={call}"}))
        return
    except (KeyboardInterrupt, SystemExit):
        raise
    except BaseException as e:
        # something that is not an ordinary Exception escaped from the code under test
        tb = traceback.extract_tb(e.__traceback__)
        where = f"{os.path.basename(tb[-1].filename)}:{tb[-1].lineno}" if tb else "?"
        print("REPLAY " + json.dumps({"reproduced": True,
                                      "outcome": f"NON-EXCEPTION ESCAPED {type(e).__name__}: {e} @ {where} args={call}"}))
        return
    print("REPLAY " + json.dumps({"reproduced": False, "outcome": "harness completed normally for " + call}))


if __name__ == "__main__":
    main()
