from sqv.driver import Obligation
from sqv.props.c06 import lrc_precheck, lrc_obligations
from sqv import nodes


def plan(ctx):
    T = 30 if ctx["tier"] == "quick" else 180
    from sqv.harness import c16 as h
    obs = []
    for i, (text, kind) in enumerate(h.RUNTIME):
        obs.append(Obligation(f"runtime.t{i}", "xh", "c16", "runtime_failure", param={"t": i}, timeout=T,
                              bounds="key string <= 2 chars, index -4..4 (list of 2), budget 4..12",
                              desc=f"eval({text!r}) [{kind}]: any failure is a ParserError"))
    obs.append(Obligation("syntax.p_error", "xh", "c16", "p_error_any", timeout=T,
                          bounds="token present or None; value <= 3 chars; line numbers 1..50",
                          desc="rules.p_error raises ParserError for every token and for None (end of input)"))
    obs.append(Obligation("syntax.t_error", "xh", "c16", "t_error_any", timeout=T, bounds="remaining text 1..3 chars",
                          desc="lexer.t_error raises ParserError"))
    obs.append(Obligation("syntax.t_error.chars", "xh", "c16", "t_error_chars", timeout=T, bounds="18 concrete offending characters (controls, NBSP, ZWSP, lone surrogate, U+10FFFF, ...)",
                          desc="lexer.t_error raises ParserError whatever the offending character is"))
    obs.append(Obligation("runtime.ast_names_budget", "xh", "c16", "ast_names_budget", timeout=T * 2, bounds="budget 1..30, host int symbolic",
                          desc="ops limit reached while an ast_names definition is evaluated: ParserError (its subclass), never a non-Exception"))
    obs.append(Obligation("syntax.reserved", "xh", "c16", "reserved_word", timeout=T, bounds="keyword text <= 3 chars",
                          desc="reserved-word production raises ParserError"))
    for p in nodes.kind_params():
        if p["kind"] in ("NameOp", "CallOp", "ShortOp", "AssignOp") or p["op"] == '@@':
            oid = f"node.{p['kind']}" + (f".{p['op']}" if p['op'] else "")
            obs.append(Obligation(oid, "xh", "c16", "node_failure", param=p, timeout=T,
                                  bounds="name bound or unbound (symbolic)", desc="unbound name / unsupported operator => ParserError"))
    from sqv.harness import txt
    for i, prog in enumerate(txt.PROGRAMS):
        if len(prog) > 600:
            continue          # (the program with hundreds of blank statements is for the layout rewrites of C15 only)
        obs.append(Obligation(f"txt.only_parser_errors.p{i}", "xh", "txt", "error_line", param={"program": i, "class_only": True}, timeout=T * 6,
                              bounds="one of 20 concrete programs; stray text from 37 samples (brackets, separators, operators, zero / empty literals, illegal characters, reserved words, unterminated quotes and %names, NUL) inserted at, "
                                     "or the text truncated at, every token boundary, under LF / CRLF / ; variants (finite domain enumerated through the solver; real lexer+parser)",
                              desc=f"program {i} damaged at every token boundary: parse returns or raises ParserError, nothing else"))
    obs += lrc_obligations(ctx, ["consistency"], prefix="lrc.")
    return {
        "precheck": lrc_precheck,
        "obligations": obs,
        "explanation": "CrossHair (z3) symbolic execution of the real failure paths: runtime failures through SqParser.eval with "
                       "symbolic keys/indices/budget, p_error for an arbitrary token or None, t_error, the reserved-word action, "
                       "and name-reading node kinds on a ScopedDict where the name is unbound.",
        "functions": ["smartquery.rules.p_error", "smartquery.lexer.t_error", "smartquery.rules.p_expression_reserved_unused",
                      "smartquery.ast_ops.{NameOp,CallOp,ShortOp}.eval", "smartquery.functions._get_item/_pop/_set/_set_with_op/_del"],
        "files": ["smartquery/rules.py", "smartquery/lexer.py", "smartquery/ast_ops.py", "smartquery/functions.py", "smartquery/exceptions.py"],
        "bounds": "strings <= 3 chars; ints unbounded; templates fixed",
        "outside": "which token strings / texts reach p_error(None) or t_error is the LRC/LXC half (see DESIGN §6 C16)",
        "stubs": ["token / lexer stand-ins for p_error and t_error"],
        "assumptions": ["CrossHair's models of str/int/dict/list"],
        "trusted": ["CrossHair 0.0.110", "z3"],
    }
