import sys, os; sys.path.insert(0, os.getcwd())

import smartquery
from smartquery import SqParser, ParserError

assert smartquery.__file__.startswith(os.getcwd()), smartquery.__file__

parser = SqParser()          # table generation happens here, outside of any evaluation
parser.eval('1 + 1')         # warm up

WATCHED = ('open', 'exec', 'compile', 'import', 'os.', 'subprocess.', 'socket.', 'shutil.', 'pickle.')
events = []
recording = False


def hook(event, args):
    if recording and event.startswith(WATCHED):
        events.append((event, tuple(repr(a)[:80] for a in args[:2])))


sys.addaudithook(hook)

# all programs, including ill-formed ones, must be evaluated (or refused) without file / import / exec activity
PROGRAMS = [
    "1 + 2 * 3",
    "x = [1, 2, 3]; x.map(v => v * 2)",
    "'abc'.upper() + str(5)",
    "undefined_name",            # runtime error
    "1 +",                       # syntax error: unexpected end of input
    "(1 + 2",                    # syntax error
    "[1, 2))",                   # syntax error
    "for",                       # reserved keyword
    "a = 1 $ 2",                 # illegal character
    "2 + 2",                     # and an ordinary program afterwards
]

report = []
for prog in PROGRAMS:
    del events[:]
    recording = True
    try:
        parser.eval(prog, names={'n': 1})
    except ParserError:
        pass
    finally:
        recording = False
    if events:
        report.append((prog, list(events)))

for prog, evs in report:
    print(f'I/O or dynamic code activity while evaluating {prog!r}:')
    for ev in evs[:6]:
        print('    ', ev)

assert not report, f'{len(report)} program(s) caused file/import/exec activity during evaluation'
print('ok: no file, import or exec activity')
