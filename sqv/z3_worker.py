"""z3 worker: run ONE chart query (sqv/lrc_checks.py) against the tables of a SqParser built from the snapshot.
usage: z3_worker.py <spec.json>; prints 'XHRESULT {json}'."""
import json
import os
import sys
import time


def main():
    spec = json.load(open(sys.argv[1]))
    sys.path.insert(0, spec["snapshot"])
    sys.path.insert(0, os.path.dirname(os.path.dirname(os.path.abspath(__file__))))
    import importlib
    mod = importlib.import_module("sqv." + spec["harness"])
    from smartquery import SqParser
    t0 = time.time()
    parser = SqParser()
    param = spec.get("param") or {}
    cx = mod.Ctx(parser, param.get("L", param.get("W", 5)), param.get("slice", "full"), timeout=spec["timeout"])
    for k, v in param.items():
        setattr(cx, k, v)
    if param.get("cube") and hasattr(mod, "CUBE"):
        mod.CUBE = tuple(param["cube"])
    out = {"id": spec.get("id")}
    if hasattr(mod, "make_confirm"):
        mod.CONFIRM = mod.make_confirm(cx, spec["fn"])
    try:
        res = mod.QUERIES[spec["fn"]](cx, list(spec.get("excludes") or []))
    except Exception as e:
        if type(e).__name__ not in ("Cycle", "Unsupported"):
            raise
        res = {"verdict": "INCONCLUSIVE", "why": "encoder cannot cover this code: %s: %s" % (type(e).__name__, e)}
    out.update(res)
    out.setdefault("twin", "unknown")
    if out.get("verdict") == "PROVED" and out["twin"] != "sat":
        out["verdict"] = "INCONCLUSIVE"
        out["why"] = "vacuous: constraints without the negated property are not satisfiable (" + str(out["twin"]) + ")"
    out["message"] = res.get("what", "")
    out["wall_total"] = round(time.time() - t0, 2)
    out.setdefault("secs", 0)
    print("XHRESULT " + json.dumps(out, default=str))


if __name__ == "__main__":
    main()
