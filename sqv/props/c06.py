from sqv.driver import Obligation


def lrc_precheck(ctx):
    """encoder validation: concrete token strings through the real lexer+parser and through the chart"""
    from smartquery import SqParser
    from sqv import lrc_checks
    try:
        cx = lrc_checks.Ctx(SqParser(), 5, "full", timeout=60)
        v = lrc_checks.validate(cx, n=160 if ctx["tier"] == "quick" else 1200, seed=ctx["seed"])
    except Exception as e:
        msg = "LRC encoder cannot cover this grammar (e.g. a terminal it has no sample text for): %r" % (e,)
        return {"encoder_validation": "failed: %r" % (e,), "abort_by_harness": {"lrc_checks": msg}}
    out = {"encoder_validation": v, "tables": cx.T.summary()}
    if v["n_disagreements"]:
        out["abort_by_harness"] = {"lrc_checks": v["disagreements"]}
    return out


def lxc_precheck(ctx):
    """encoder validation: raw matches of the real compiled master regex vs the LXC encoding on concrete texts"""
    from smartquery import SqParser
    from sqv import lxc_checks
    try:
        cx = lxc_checks.Ctx(SqParser(), 6, None, timeout=60)
        v = lxc_checks.validate(cx, n=200 if ctx["tier"] == "quick" else 800, seed=ctx["seed"])
    except Exception as e:
        return {"lxc_encoder_validation": "failed: %r" % (e,), "abort_by_harness": {"lxc_checks": "LXC encoder cannot cover this lexer: %r" % (e,)}}
    out = {"lxc_encoder_validation": v, "master_regex_rules": [r[0] for r in cx.lx.rules]}
    if v["n_disagreements"]:
        out["abort_by_harness"] = {"lxc_checks": v["disagreements"]}
    return out


def both_prechecks(ctx):
    a = lrc_precheck(ctx)
    b = lxc_precheck(ctx)
    out = dict(a)
    out.update({k: v for k, v in b.items() if k != "abort_by_harness"})
    ab = dict(a.get("abort_by_harness") or {})
    ab.update(b.get("abort_by_harness") or {})
    if ab:
        out["abort_by_harness"] = ab
    return out


def lxc_obligations(ctx, queries, prefix="lxc."):
    quick = ctx["tier"] == "quick"
    W = 7 if quick else 10
    desc = {"linefeeds": "every LF / CR LF / ';' the lexer meets is one NEWLINE match and no other token contains a line feed",
            "names": "%..% names run to the next %, plain names are maximal word-character runs; every non-digit word character starts a NAME",
            "reference": "the master regex tokenises every text exactly like the published token definitions in spec/grammar_ref.json (two rule sets over the same symbolic characters)",
            "blank": "a space or tab inserted where the lexer stands changes no earlier raw match and is skipped (two linked texts)",
            "crlf": "CR inserted before a line feed: earlier raw matches unchanged (a comment may absorb it), CR LF is one NEWLINE (two linked texts)"}
    return [Obligation(f"{prefix}{q}", "z3", "lxc_checks", q, param={"W": W}, timeout=240 if quick else 1500, twin_timeout=0,
                       bounds=f"all texts of <= {W} characters over the 31 character classes of the master regex (every code point belongs to one)",
                       desc=desc[q]) for q in queries]


def lrc_obligations(ctx, queries, prefix=""):
    quick = ctx["tier"] == "quick"
    obs = []
    plan = {
        # (slice, L quick, L thorough, cubes in the thorough tier)
        "full_noreserved": (6, 8, 8),
        "operators": (7, 9, 4),
        "brackets": (8, 10, 3),
        "statements": (7, 9, 1),
    }
    for q in queries:
        for sl, (lq, lt, ncubes) in plan.items():
            L = lq if quick else lt
            cubes = [None] if quick or ncubes == 1 else [(i, ncubes) for i in range(ncubes)]
            if q == "error_token":
                L = max(4, L - 1)
            if q == "consistency" and sl == "full_noreserved":
                sl_use = "full"
            else:
                sl_use = sl
            groups = ["bin-left", "bin-right", "uminus-right", "not-right", "suffix-left", "index-left", "ifexpr-left"] if q == "patterns" else [None]
            for g in groups:
              for cube in (cubes if q in ("consistency", "error_token", "completeness", "soundness") else [None]):
                oid = f"{prefix}{q}.{sl_use}" + (f".{g}" if g else "") + (f".cube{cube[0]}of{cube[1]}" if cube else "")
                param = {"L": L, "slice": sl_use}
                if g:
                    param["group"] = g
                if cube:
                    param["cube"] = list(cube)
                obs.append(Obligation(oid, "z3", "lrc_checks", q, param=param, timeout=240 if quick else 2400, twin_timeout=0,
                                      bounds=f"all token strings of length <= {L} over the {sl_use} alphabet" + (f" whose first token lies in share {cube[0] + 1}/{cube[1]} of the alphabet" if cube else ""),
                                      desc={"consistency": "every token string is accepted xor stops at exactly one error configuration (token or end of input)",
                                            "error_token": "the token given to p_error has no accepted continuation (two charts sharing the prefix)",
                                            "patterns": f"no accepted string has an unparenthesised {g} child that contradicts the operator table",
                                            "completeness": "derivable in the grammar with an operator-table-respecting tree => accepted",
                                            "soundness": "accepted => derivable by the productions"}[q]))
    return obs


def plan(ctx):
    obs = lrc_obligations(ctx, ["soundness", "completeness", "patterns"])
    from sqv.harness import txt
    T = 50 if ctx["tier"] == "quick" else 300
    for i, prog in enumerate(txt.PROGRAMS):
        if len(prog) > 600:
            continue          # (the program with hundreds of blank statements is for the layout rewrites of C15 only)
        obs.append(Obligation(f"txt.soundness.p{i}", "xh", "txt", "error_line", param={"program": i, "soundness": True}, timeout=T * 6,
                              bounds="one of 20 concrete programs; stray text from 37 samples inserted at (or the text truncated at) every token boundary, under LF / CRLF / ; variants; "
                                     "with / without an earlier list_names() and a parse cache (finite domain chosen by the solver, boundaries looped natively; real lexer+parser)",
                              desc=f"program {i} damaged at every token boundary: if the real parser accepts the text, the published token definitions accept it and the published productions derive its token string "
                                   "(independent tokeniser + Earley recogniser over spec/grammar_ref.json; line breaks inside brackets dropped, ';' always a separator)"))
    obs += lxc_obligations(ctx, ["reference"])
    return {
        "obligations": obs,
        "precheck": both_prechecks,
        "explanation": "z3 decides, for ALL token strings up to the stated length over the stated alphabet, queries over an SMT chart of the run of "
                       "the real LALR tables (regenerated from the snapshot by SqParser()): acceptance == derivability in the published grammar (independent copy: spec/grammar_ref.json) with the "
                       "operator-table filters of the property, no parent/child grouping against the table, and (LXC) the master regex tokenises every text like the published token definitions. Counterexamples are rendered to "
                       "text and replayed through the real lexer and parser.",
        "functions": ["LALR tables built by smartquery.ply.yacc from smartquery/rules.py + lexer.precedence", "driver semantics of ply.yacc.parseopt_notrack (modelled, validated on concrete strings every run)"],
        "files": ["smartquery/rules.py", "smartquery/lexer.py", "smartquery/ply/yacc.py", "smartquery/sq_parser.py"],
        "bounds": "token strings: full alphabet (minus COMMENT, never emitted by the lexer, and reserved words, whose action always raises) L<=6 quick / 8 thorough; "
                  "operator slice 7/9; bracket slice 8/10; statement slice 7/9",
        "outside": "longer strings; strings mixing slices beyond the full-alphabet bound; token VALUES (they do not influence parsing); grouping facts the property does not spell out "
                   "(e.g. the left context of a conditional expression)",
        "stubs": [],
        "assumptions": ["the chart rules model PLY's driver loop (validated against the real parser on concrete strings in every run; acceptance xor error consistency query)",
                        "operator table and kinds as stated in the property (sqv/lrc_checks.py LEVEL/ASSOC/bad_child)"],
        "trusted": ["z3 (bit-blast + SAT)", "sqv/lrc.py encoder"],
    }
