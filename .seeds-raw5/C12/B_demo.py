import sys, os; sys.path.insert(0, os.getcwd())

import smartquery
from smartquery import SqParser

assert smartquery.__file__.startswith(os.getcwd()), smartquery.__file__

parser = SqParser()

# 1. c[k] = e inside a script: the right-hand side happens to be empty at the time of the store
names = {}
parser.eval('\n'.join([
    'pending = []',
    'orders = {}',
    'orders["alice"] = pending',      # must store an independent copy of the (still empty) list
    'push(pending, "tea")',           # mutation through the other variable ...
]), names=names, max_ops_evaluated=1000)
assert names['pending'] == ['tea']
assert names['orders']['alice'] is not names['pending'], 'orders["alice"] is the same object as pending'
assert names['orders'] == {'alice': []}, names['orders']   # ... must not be visible through the stored value

# 2. the same with a host-supplied object: the script only assigns FROM it and then mutates its own
#    container, which must never change the host's object
host_defaults = {}
names = {'defaults': host_defaults, 'cfg': {}}
parser.eval('\n'.join([
    'cfg["opts"] = defaults',
    'cfg["opts"]["debug"] = True',
]), names=names, max_ops_evaluated=1000)
assert names['cfg'] == {'opts': {'debug': True}}
assert host_defaults == {}, f'host object changed through a variable assigned from it: {host_defaults}'

# 3. non-empty values keep being copied (sanity)
names = {'src': [[1]], 'c': {}}
parser.eval('c["k"] = src\npush(src[0], 2)', names=names, max_ops_evaluated=1000)
assert names['c'] == {'k': [[1]]}

print('ok')
