from sqv.driver import Obligation
from sqv import nodes


TEMPLATES = [
    "a + b if c else a - b",
    "l | map(v => v + a)",
    "l | filter(v => v > a) | len",
    "l | reduce((x, y) => x + y) if l else zero",
    "sorted(l, v => zero - v)",
    "h(v => v + one)",
    "f = x => f(x - one) if x > zero else zero\nf(a)",
    "x = [a]\nx[zero] = b\nx.push(a)\nx[zero] + x[one]",
    "t(1, c) and t(2, a) or t(3, b)",
    "[t(1, a), t(2, b)] | map(v => t(3, v))",
    "d = {'k': a}\nd['k'] += b\ndel d['k']\nt(1, d)",
]
SWALLOW = ["h(v => t(1, v) + one)\nt(2)", "h(v => [t(1), t(2)])\nt(3) or t(4)"]
CROSS_FAIL = [("f = x => x + a\nnosuchname", "f(a)"), ("f = x => x + a\na + a + a", "f(a) + f(a)")]
CROSS = [("f = x => x + a", "f(a)"), ("g = (x, y) => x if y else a\nf = x => g(x, a)", "l = [a, a]\nl | map(f)")]


def plan(ctx):
    T = 30 if ctx["tier"] == "quick" else 180
    obs = [Obligation("O1.base_step", "xh", "c01", "base_step", timeout=T,
                      bounds="k>=0, N>=1 unbounded ints",
                      desc="Op.eval: counter+1; ops-limit (a ParserError) iff k+1>=N")]
    uncovered = []
    for p in nodes.kind_params():
        oid = f"O2.step.{p['kind']}" + (f".{p['op']}" if p['op'] else "")
        try:
            nodes.build(p["kind"], p["op"], [], [0, 0, 0, 0], 1)
        except nodes.Uncovered as e:
            uncovered.append(f"node kind not constructible by the generic builder: {e}")
            continue
        obs.append(Obligation(oid, "xh", "c01", "node_step", param=p, timeout=T,
                              bounds="k,N unbounded; list-typed child fields 0..2; child truth values symbolic; "
                                     "one child may raise; closure called 0..2 times",
                              desc="real node, stub children: charged first, counter == k+1+child evals, "
                                   "ops-limit iff counter reaches N, nothing happens when k+1>=N"))
    for i, text in enumerate(TEMPLATES):
        obs.append(Obligation(f"O3.budget.t{i}", "xh", "c01", "api_budget", param={"text": text}, timeout=T * 2,
                              bounds="N>=1 unbounded; host ints unbounded (a in 0..3 where it drives recursion); host list "
                                     "length <= 3; host callback calls <= 3",
                              desc=f"SqParser.eval({text!r}): ops-limit iff independent node count >= N"))
        obs.append(Obligation(f"O5.monotone.t{i}", "xh", "c01", "api_monotone", param={"text": text}, timeout=T * 2,
                              bounds="N>=1, d>=0 unbounded; same shapes as O3",
                              desc=f"{text!r}: success with N => identical with N+d; aborted run's probe log is a prefix"))
    for i, text in enumerate(TEMPLATES[:3]):
        obs.append(Obligation(f"O4.default.t{i}", "xh", "c01", "api_default_budget", param={"text": text}, timeout=T,
                              bounds="host ints unbounded", desc="eval without max_ops_evaluated uses budget 100"))
    for i, text in enumerate(SWALLOW):
        obs.append(Obligation(f"O3.swallow.t{i}", "xh", "c01", "api_swallow", param={"text": text}, timeout=T * 2,
                              bounds="N unbounded; callback calls <= 3",
                              desc=f"{text!r} under a host callback that swallows errors: no host-visible effect at or after the N-th op"))
    for i, text in enumerate(["l | map(g)", "k + g(k)", "g(1) if l else k"]):
        obs.append(Obligation(f"O4.ast_names.t{i}", "xh", "c01", "api_ast_names", param={"text": text}, timeout=T * 2,
                              bounds="N>=1 unbounded; host list <= 3", desc=f"eval({text!r}, ast_names={{g: lambda, k: expr}}): definitions and the lambdas they create are charged to this call"))
    obs.append(Obligation("O3.abort_prefix", "xh", "c01", "abort_prefix", timeout=T * 3,
                          bounds="3 programs of 4..8 statements (assignments, probe calls, pushes into host containers, a mapped lambda); budget 1..60 (finite domain, native)",
                          desc="names, host containers and probe log after a run that hit its budget together form a state the unbounded run passes through (nothing undone, nothing skipped)"))
    from sqv.harness import c01 as h
    for i, text in enumerate(h.EFFECTS):
        obs.append(Obligation(f"O5.effects_bounded.t{i}", "xh", "c01", "effects_bounded", param={"t": i}, timeout=T * 2,
                              bounds="150 recording host rows; budget N from 14 values in 1..300 (index symbolic); first or second evaluation of the tree",
                              desc=f"eval({text!r}): fewer than N lambda-body evaluations read host data under budget N (each body evaluation is an operation, whatever its shape)"))
    for i, text in enumerate(h.REENTRANT):
        obs.append(Obligation(f"O4.reentrant.t{i}", "xh", "c01", "api_reentrant", param={"text": text}, timeout=T * 2,
                              bounds="outer budget N and inner budget unbounded; host list <= 2",
                              desc=f"eval({text!r}) where host `re` calls eval() on the same parser and names: the outer call's own node evaluations obey ITS budget"))
    for i, (d, u) in enumerate(CROSS_FAIL):
        obs.append(Obligation(f"O6.cross_eval_failed_define.t{i}", "xh", "c01", "cross_eval", param={"define": d, "use": u, "define_fails": True}, timeout=T * 2,
                              bounds="N1>=4, N2>=1 unbounded; 0..3 intervening evals",
                              desc=f"eval({d!r}) defines a lambda and then FAILS (undefined name / its own ops limit); a later eval({u!r}) is still charged to its own budget"))
    for i, (d, u) in enumerate(CROSS):
        obs.append(Obligation(f"O6.cross_eval.t{i}", "xh", "c01", "cross_eval", param={"define": d, "use": u}, timeout=T * 2,
                              bounds="N1>=4, N2>=1 unbounded; 0..3 intervening evals",
                              desc=f"lambda defined by eval({d!r}) and used by later eval({u!r}) is charged to the later call's budget"))
    return {
        "obligations": obs,
        "uncovered": uncovered,
        "explanation": "CrossHair (z3) symbolic execution of the real Op.eval and of every node class's eval with stub "
                       "children; budget N and counter k are unbounded symbolic ints.",
        "functions": ["smartquery.ast_ops.Op.eval"] + ["smartquery.ast_ops.%s.eval" % k for k in nodes.node_kinds()],
        "files": ["smartquery/ast_ops.py", "smartquery/vm_state.py", "smartquery/sq_parser.py", "smartquery/scoped_dict.py"],
        "bounds": "k, N unbounded (LIA); children per list field <= 2; closure calls <= 2",
        "outside": "programs deeper than one node are covered by structural induction over the tree (not mechanised)",
        "stubs": ["stub child nodes (charge through the real Op.eval)", "number formatting placeholder"],
        "assumptions": ["structural induction over syntax trees", "CrossHair's models of int/bool/list/dict"],
        "trusted": ["CrossHair 0.0.110", "z3"],
    }
