"""CrossHair worker: analyse ONE harness function (one obligation) and print a JSON verdict.

usage: xh_worker.py <spec.json>
spec: {snapshot, harness (module name under sqv.harness), fn, param, timeout, excludes:[expr], twin_timeout}
Runs (1) the reachability twin (REACH mode: hlib.done() raises -> must be refuted), then
(2) the real analysis.  Output (last stdout line): JSON {verdict, twin, message, cex, secs, ...}.
"""
import json
import os
import re
import sys
import time


def install_format_stub():
    # f-strings realise symbolic ints (the ops-limit message formats max_ops_evaluated): formatting a
    # symbolic non-string value with an empty spec yields a fixed placeholder instead.  See DESIGN §3.
    from crosshair import opcode_intercept
    from crosshair.tracers import NoTracing
    from crosshair.util import is_iterable  # noqa
    from crosshair.libimpl.builtinslib import SymbolicInt, SymbolicBool, SymbolicFloat

    orig = opcode_intercept.FormatStashingValue.__format__
    orig_str = opcode_intercept.FormatStashingValue.__str__

    def __format__(self, fmt):
        with NoTracing():
            symbolic = isinstance(self.value, (SymbolicInt, SymbolicBool, SymbolicFloat))
            plain = (fmt == "")
        if symbolic and plain:
            self.formatted = "<sym>"
            return ""
        return orig(self, fmt)

    def __str__(self):
        with NoTracing():
            symbolic = isinstance(self.value, (SymbolicInt, SymbolicBool, SymbolicFloat))
        if symbolic:
            self.formatted = "<sym>"
            return ""
        return orig_str(self)

    opcode_intercept.FormatStashingValue.__format__ = __format__
    opcode_intercept.FormatStashingValue.__str__ = __str__


def keep_lru_cache():
    # CrossHair bypasses functools.lru_cache (calls __wrapped__) to keep paths independent; obligations about
    # hidden cross-call state need the real cache
    import functools
    from crosshair import core_and_libs  # noqa: registrations loaded
    from crosshair import core
    core._PATCH_REGISTRATIONS.pop(functools._lru_cache_wrapper.__call__, None)


def analyse(fn, timeout, per_path=None):
    from crosshair.core_and_libs import analyze_function, run_checkables
    from crosshair.options import AnalysisOptionSet
    from crosshair.statespace import MessageType
    opts = AnalysisOptionSet(per_condition_timeout=float(timeout), report_all=True,
                             per_path_timeout=per_path,
                             max_uninteresting_iterations=10**9)
    t0 = time.time()
    checkables = analyze_function(fn, opts)
    if not checkables:
        return {"state": "no_conditions", "message": "", "secs": 0.0}
    msgs = run_checkables(checkables)
    secs = time.time() - t0
    # most severe message decides
    worst = max(msgs, key=lambda m: m.state) if msgs else None
    if worst is None:
        return {"state": "none", "message": "", "secs": secs}
    return {"state": worst.state.value, "message": worst.message, "secs": secs,
            "traceback": (worst.traceback or "")[-1500:]}


CALL_RE = re.compile(r"when calling (.*?)(?: \(which returns .*\))?$", re.S)


def main():
    spec = json.load(open(sys.argv[1]))
    sys.path.insert(0, spec["snapshot"])
    sys.path.insert(0, os.path.dirname(os.path.dirname(os.path.abspath(__file__))))
    os.environ["SQV_MODE"] = "crosshair"
    from crosshair.auditwall import engage_auditwall, opened_auditwall
    from crosshair.util import set_debug
    if spec.get("debug"):
        set_debug(True)
    if (spec.get('extra') or {}).get('format_stub', True):
        install_format_stub()
    if (spec.get('extra') or {}).get('keep_lru_cache'):
        keep_lru_cache()
    import importlib
    from sqv import hlib
    hlib.PARAM = spec.get("param")
    hlib.TIER = spec.get("tier") or "quick"
    hlib.EXCLUDES = list(spec.get("excludes") or [])
    mod = importlib.import_module("sqv.harness." + spec["harness"])
    fn = getattr(mod, spec["fn"])
    if spec.get("auditwall", True):
        engage_auditwall()
    out = {"id": spec.get("id")}
    # (1) reachability twin
    hlib.TWIN = True
    tw = analyse(fn, spec.get("twin_timeout", 15))
    hlib.TWIN = False
    out["twin"] = tw["state"]
    out["twin_message"] = tw["message"][:300]
    out["twin_secs"] = round(tw["secs"], 2)
    twin_ok = tw["state"] in ("post_fail", "exec_err") and "REACH" in tw["message"]
    if tw["state"] in ("post_fail", "exec_err", "post_err") and "REACH" not in tw["message"]:
        # the very first exploration already violated an assertion (e.g. an effect that only happens once per
        # process): that is a counterexample in its own right
        out.update({"state": tw["state"], "message": tw["message"][:2000], "secs": 0.0, "traceback": tw.get("traceback", ""),
                    "verdict": "CEX"})
        m = CALL_RE.search(tw["message"])
        out["call"] = m.group(1) if m else None
        print("XHRESULT " + json.dumps(out))
        return
    # (2) the real thing
    res = analyse(fn, spec["timeout"])
    out["state"] = res["state"]
    out["message"] = res["message"][:2000]
    out["secs"] = round(res["secs"], 2)
    out["traceback"] = res.get("traceback", "")
    if res["state"] == "confirmed":
        out["verdict"] = "PROVED" if twin_ok else "INCONCLUSIVE"
        if not twin_ok:
            out["why"] = "vacuous: reachability twin not refuted (" + tw["state"] + ")"
    elif res["state"] in ("post_fail", "exec_err", "post_err"):
        out["verdict"] = "CEX"
        m = CALL_RE.search(res["message"])
        out["call"] = m.group(1) if m else None
    else:
        out["verdict"] = "INCONCLUSIVE"
        out["why"] = res["state"]
    print("XHRESULT " + json.dumps(out))


if __name__ == "__main__":
    main()
