"""C07 harnesses: the real evaluator agrees with the reference semantics in spec/refsem.py (written from the
property text): one step per node kind over operand-type combinations, deterministic builtins, templates."""
import copy as _copy
from decimal import Decimal as RealDecimal

from sqv import hlib
from spec import refsem as R
from sqv.nodes import Stub, mkstate, build
from smartquery import ast_ops, functions
from smartquery.ast_ops import BinOp, UnaryOp, SliceOp, ShortOp
from smartquery.custom_types import Decimal
from smartquery.functions import FUNCTIONS
from smartquery.exceptions import ParserError
from sqv.api import run_eval, prewarm, CACHED, api_count, api_reset
from sqv.harness import c13

DEC = [Decimal('0'), Decimal('1'), Decimal('2.5'), Decimal('-3'), Decimal('1.10'), Decimal('1E-7'), Decimal('1E+30'), Decimal('0E-7')]
KN = ['int', 'bool', 'str', 'none', 'list', 'dict', 'decimal']


def _operand(kind, i, b, s, n, di):
    if kind == 0:
        return i
    if kind == 1:
        return b
    if kind == 2:
        return s
    if kind == 3:
        return None
    if kind == 4:
        return [i, 7][:n]
    if kind == 5:
        return {'p': i, 'q': 1}          # (i is the same symbolic int the int kind would use)
    return DEC[di]


def _cls(exc):
    if exc is None:
        return 'none'
    if isinstance(exc, (ParserError, R.RefParserError)):
        return 'parser_error'
    return 'other'


def _run(f):
    try:
        return f(), None
    except (R.Unspecified, NotImplementedError):
        raise
    except Exception as e:
        return None, e


def _compare(real, rexc, ref, fexc, what):
    if isinstance(fexc, R.Unspecified) or _cls(fexc) == 'other':
        return            # not a well-typed use: the statement prescribes nothing
    assert _cls(rexc) == _cls(fexc), "%s: error class %s, reference prescribes %s" % (what, _cls(rexc), _cls(fexc))
    if fexc is None:
        assert type(real) is type(ref) or (isinstance(real, (int, bool)) and isinstance(ref, (int, bool))) or _sym(real) or _sym(ref), \
            "%s: result type %s, reference prescribes %s" % (what, type(real).__name__, type(ref).__name__)
        assert real == ref, "%s: value differs from the reference semantics" % what
        if isinstance(real, RealDecimal) and isinstance(ref, RealDecimal):
            # equal numbers can still be written differently (sign of zero, scale): programs see that through str / keys
            assert str(real) == str(ref), "%s: the result is written %s, the reference semantics give %s" % (what, real, ref)


import types as _types


def _isfn(v):
    # NOT callable(v): callable() is a C builtin and realises symbolic arguments
    return isinstance(v, (_types.FunctionType, _types.BuiltinFunctionType, _types.MethodDescriptorType, type))


def _sym(v):
    return type(v).__module__.startswith('crosshair')


def binop_step(kb: int, i1: int, i2: int, b1: bool, b2: bool, s1: str, s2: str, n1: int, n2: int, d1: int, d2: int) -> None:
    """
    pre: 0 <= kb <= 6 and len(s1) <= 2 and len(s2) <= 2 and 0 <= n1 <= 2 and 0 <= n2 <= 2 and 0 <= d1 < 8 and 0 <= d2 < 8
    post: True
    """
    hlib.enter(locals())
    op, ka = hlib.PARAM["op"], hlib.PARAM["ka"]
    if "kb" in hlib.PARAM:
        hlib.assume(kb == hlib.PARAM["kb"])
    hlib.assume((d1 == 0 or ka == 6) and (d2 == 0 or kb == 6))
    kb, d1, d2 = hlib.concrete(kb, 0, 6), hlib.concrete(d1, 0, 7), hlib.concrete(d2, 0, 7)
    if op in ('*', '**', '/'):
        # Decimal arithmetic on symbolic numbers is out of CrossHair's reach: numbers come from the concrete pool
        hlib.assume(ka not in (0, 1) and kb not in (0, 1))
    if ka == 6 or kb == 6:
        hlib.assume(not (ka in (0, 1) or kb in (0, 1)))
    if ka == 2 and op == '+':
        hlib.assume(-2 <= i2 <= 11 and len(s2) <= 1 and len(s1) <= 1 and (kb != 5 or i2 == 0))          # str + x formats x: bounded so that CrossHair can enumerate it
    a, b = _operand(ka, i1, b1, s1, n1, d1), _operand(kb, i2, b2, s2, n2, d2)
    a2, b2_ = _copy.deepcopy(a) if not _sym(a) else a, _copy.deepcopy(b) if not _sym(b) else b
    node = BinOp(op, Stub([], 0, a), Stub([], 1, b))
    try:
        real, rexc = _run(lambda: node.eval(mkstate(0, 100)))
        ref, fexc = _run(lambda: R.binop(op, a2, lambda: b2_))
    except (R.Unspecified, NotImplementedError):
        hlib.done()
        return
    _compare(real, rexc, ref, fexc, "%s %s %s" % (KN[ka], op, KN[kb]))
    hlib.done()


def unary_step(ka: int, i1: int, b1: bool, s1: str, n1: int, d1: int) -> None:
    """
    pre: 0 <= ka <= 6 and len(s1) <= 2 and 0 <= n1 <= 2 and 0 <= d1 < 8
    post: True
    """
    hlib.enter(locals())
    op = hlib.PARAM["op"]
    hlib.assume(d1 == 0 or ka == 6)
    ka, d1 = hlib.concrete(ka, 0, 6), hlib.concrete(d1, 0, 7)
    a = _operand(ka, i1, b1, s1, n1, d1)
    node = UnaryOp(op, Stub([], 0, a))
    real, rexc = _run(lambda: node.eval(mkstate(0, 100)))
    ref, fexc = _run(lambda: (-a if op == '-' else (not a)))
    _compare(real, rexc, ref, fexc, "%s %s" % (op, KN[ka]))
    hlib.done()


def slice_step(k1: int, k2: int, k3: int, i1: int, i2: int, i3: int, d1: int) -> None:
    """
    pre: 0 <= k1 <= 2 and 0 <= k2 <= 2 and 0 <= k3 <= 2 and -1 <= i1 <= 1 and -1 <= i2 <= 2 and -1 <= i3 <= 1 and 0 <= d1 < 3
    post: True
    """
    # slice bounds: absent (None), an int (incl. 0 and negatives), or a Decimal; then applied to a list and a string
    hlib.enter(locals())
    d1 = hlib.concrete(d1, 0, 4)

    def pick(k, i):
        return None if k == 0 else (i if k == 1 else DEC[d1])
    vals = [pick(k1, i1), pick(k2, i2), pick(k3, i3)]
    node = SliceOp(Stub([], 0, vals[0]), Stub([], 1, vals[1]), Stub([], 2, vals[2]))
    real, rexc = _run(lambda: node.eval(mkstate(0, 100)))
    ref, fexc = _run(lambda: slice(*[int(v) if v is not None else None for v in vals]))
    assert _cls(rexc) == _cls(fexc)
    if fexc is None:
        assert isinstance(real, slice) and (real.start, real.stop, real.step) == (ref.start, ref.stop, ref.step), \
            "slice bounds differ from the reference (absent stays absent, 0 stays 0, decimals truncate)"
        data = [10, 11, 12, 13]
        r1, e1 = _run(lambda: FUNCTIONS['__getitem__'](data, real))
        r2, e2 = _run(lambda: data[ref])
        assert _cls(e1) == _cls(e2) and (e2 is not None or r1 == r2), "slicing result differs from Python's"
    hlib.done()


MUT_SHAPES = {'push': ['LI', 'NL'], 'pop': ['L', 'LZ', 'LI'], 'insert': ['LZI', 'LII'], 'remove': ['LI', 'DS', 'NL'],
              '__setitem__': ['LZI', 'DSN', 'DSI', 'LII'], '__setitem_with_op__': ['LZOI', 'DSOI'], '__delitem__': ['LZ', 'DS', 'LI']}
NUMERIC_CONCRETE = {'int': ['E', 'Z'], 'float': ['Z'], 'round': ['E', 'EZ', 'Z'], 'floor': ['E', 'Z'], 'ceil': ['E', 'Z'], 'abs': ['E', 'Z'],
                    'str': ['l', 'd', 'n', 'E'], 'join': ['l', 'lS', 'n'], 'sum': ['l', 'L'], 'get': ['DS', 'DSL', 'DX', 'DXL'],
                    '__getitem__': ['LZ', 'DS', 'NZ', 'DX', 'LI'], 'index_of': ['LI', 'NL', 'lZ']}


def _args(shape, a, b, c, n, flag):
    out = []
    i = 0
    while i < len(shape):
        ch = shape[i]
        if ch == 'O':
            out.append('+=')
            i += 1
        elif ch == 'X':
            out.append('absent')
            i += 1
        elif ch == 'F':
            out.extend(c13._args(shape[i:i + 2], a, b, c, n, flag))
            i += 2
        else:
            out.extend(c13._args(ch, a, b, c, n, flag))
            i += 1
    return out


def builtin_equiv(a: int, b: int, c: int, n: int, flag: bool) -> None:
    """
    pre: 0 <= n <= 5 and -3 <= a <= 3
    post: True
    """
    hlib.enter(locals())
    name, shape = hlib.PARAM["fn"], hlib.PARAM["shape"]
    hlib.assume(hlib.deep() or n <= 3)
    n = hlib.concrete(n, 0, 5)
    args1 = _args(shape, a, b, c, n, flag)
    args2 = _args(shape, a, b, c, n, flag)
    try:
        real, rexc = _run(lambda: FUNCTIONS[name](*args1))
        ref, fexc = _run(lambda: R.REF[name](*args2))
    except (R.Unspecified, NotImplementedError):
        hlib.done()
        return
    _compare(real, rexc, ref, fexc, "%s%s" % (name, shape))
    if fexc is None or _cls(fexc) == 'parser_error':
        for x, y in zip(args1, args2):
            if isinstance(x, (list, dict)):
                assert x == y, "%s%s: argument afterwards differs from the reference semantics" % (name, shape)
    hlib.done()


TEMPLATES = [
    "a + b - c",
    "s + a + None",
    "a > b and s or not c",
    "a if b > c else s",
    "-a + (b)",
    "x = a\ny = x + b\ny",
    "x = a\nx += b\nx -= c\nx",
    "l[a]",
    "l[zero:a]",
    "l[a:]",
    "l[:a]",
    "l[::a]",
    "l[:a:]",
    "l[a::]",
    "l[:]",
    "l[zero] = s\nl",
    "l[zero] += a\nl[zero]",
    "del l[zero]\nl",
    "d[s] = a\nd[s] + b",
    "{s: a, 'k': [b]}",
    "[a, [b, c], s]",
    "len(l) + l.len() + (l | len)",
    "f = (p, q) => p + q\nf(a, b)",
    "f = p => g(zero)\ng = q => p + q\nf(a)",
    "l | map(v => v + a) | filter(v => v > b) | len",
    "l | reduce((p, q) => p + q) if l else zero",
    "sorted(l, v => zero - v) | reversed",
    "a in l and s not in d",
    "l.push(a)\nl.pop()\ninsert(l, zero, b)\nl",
    "# only a comment",
    "",
    "x = a; y = b\n\nx == y",
    "d | map((k, v) => k) | join(s)",
    "get(d, s, a) == get(d, 'p')",
    "x = l\nx.push(a)\nlen(l) == len(x)",
    "True and None or False",
    "x = nn\nx[zero].push(a)\nnn[zero]",
    "acc = [[a]]\nacc += nn\nacc[one].push(b)\nnn",
    "d2 = {'k': nn}\nd2['k'][zero].push(c)\nnn",
    "x = a\ng = y => x + y\nf = x => g(zero)\nf(b)",
    "len = v => a\nf = l => len(l)\n[f(nn), l | map(v => len(v)) | sum]",
    "tri = n => zero if n <= zero else tri(n - one) + n\ntri(a)",
    "twice = (f, v) => f(f(v))\ntwice(y => twice(z => z + y, one), a)",
    "s + str(one) == str(s) + str(one)",
    # numerically equal keys spelled with different scales are different keys (run with the real functools caches)
    "d3 = {2.50: a}\nd3[2.5]",
    "x = {}\nx[7.0] = a\nx[7] = b\nkeys(x)",
    "x = {1: a}\nx[1.0] = b\nx[0.5 * 2] = c\n[keys(x), get(x, 1.00, s), get(x, 1, s)]",
    "x = {1.0: a}\ny = {1: b}\n[keys(x), keys(y), x | map((k, v) => k), 1.0 in x, 1 in x]",
    "x = {}\nx[14 / 2] = a\nx[7] = b\nx[7.00] = c\ndel x[7]\nkeys(x)",
]
REAL_CACHES_FROM = 44
if isinstance(hlib.PARAM, dict) and "t" in hlib.PARAM:
    prewarm(TEMPLATES[hlib.PARAM["t"]])


def template(a: int, b: int, c: int, si: int, n: int) -> None:
    """
    pre: 0 <= si <= 2 and 0 <= n <= 3 and -4 <= a <= 4
    post: True
    """
    hlib.enter(locals())
    text = TEMPLATES[hlib.PARAM["t"]]
    if hlib.PARAM["t"] >= REAL_CACHES_FROM:
        hlib.reset_caches()          # real functools caches are in use for these: every path starts with them empty
    hlib.assume(hlib.deep() or n <= 3)
    n = hlib.concrete(n, 0, 5)
    s = ['', 'p', 'zz'][hlib.concrete(si, 0, 2)]

    def host():
        return {'a': a, 'b': b, 'c': c, 's': s, 'l': [b, c, a][:n], 'd': {'p': a, 'q': [b]}, 'zero': 0, 'one': 1, 'nn': [[b], [c]]}
    h1, h2 = host(), host()
    with hlib.native():
        tree = CACHED.parse(text.rstrip())
    api_reset()
    out = run_eval(text, h1, 10**6)
    started = api_count()
    try:
        pair, fexc = _run(lambda: R.ref_run(tree, h2, FUNCTIONS))
    except (R.Unspecified, NotImplementedError):
        hlib.done()
        return
    ref, env = pair if fexc is None else (None, None)
    real, rexc = (out[1], None) if out[0] == 'ok' else (None, out[2])
    _compare(real if not _isfn(real) else None, rexc, ref if not _isfn(ref) else None, fexc, repr(text))
    if fexc is None:
        k1 = {k: v for k, v in h1.items() if not _isfn(v)}
        k2 = {k: v for k, v in h2.items() if not _isfn(v)}
        assert k1 == k2, "%r: host names afterwards differ from the reference semantics" % text
        assert started == env.ops, "%r: operations charged differ from the number of node evaluations of the reference semantics" % text
    hlib.done()


# operators on the Python ints / bools that builtins such as len, index_of, enumerate and the host hand out
INTS = [0, 1, 2, 3, 7, -4, True, False, 10, 6]


def int_operands(ai: int, bi: int, short: bool) -> None:
    """
    pre: 0 <= ai < 10 and 0 <= bi < 10
    post: True
    """
    hlib.enter(locals())
    op = hlib.PARAM["op"]
    ai, bi = hlib.concrete(ai, 0, 9), hlib.concrete(bi, 0, 9)
    short = True if short else False
    with hlib.native():
        a, b = INTS[ai], INTS[bi]
        if short:
            host = {'x': a}
            real, rexc = _run(lambda: (ShortOp('x', op + '=', Stub([], 0, b)).eval(mkstate(0, 100, host=host)), host['x'])[1])
            ref, fexc = _run(lambda: R.short(op + '=', a, b))
        else:
            real, rexc = _run(lambda: BinOp(op, Stub([], 0, a), Stub([], 1, b)).eval(mkstate(0, 100)))
            ref, fexc = _run(lambda: R.binop(op, a, lambda: b))
        msg = None
        try:
            _compare(real, rexc, ref, fexc, "%r %s%s %r" % (a, op, '=' if short else '', b))
        except AssertionError as e:
            msg = str(e)
        if msg is None and fexc is None and isinstance(ref, float) and repr(real) != repr(ref):
            msg = "%r %s %r: %r, Python semantics prescribe %r" % (a, op, b, real, ref)
    assert msg is None, msg
    hlib.done()


PRETTY = ['0', '-0', '-0.00', '-0.000', '0.0000', '-0.0000', '1234', '-1234', '12345', '-12345', '123456789', '-123456789', '-0.004',
          '1234.5678', '-1234.5678', '1E+30', '-1E-7', '-0E-7', '0E-7', '-0.00000', '999', '-99999', '100000', '-0.10']


def pretty_numbers(di: int, via_round: bool, custom_sep: bool) -> None:
    """
    pre: 0 <= di < 24
    post: True
    """
    hlib.enter(locals())
    di = hlib.concrete(di, 0, 23)
    with hlib.native():
        v = RealDecimal(PRETTY[di])
        if via_round and abs(v) < 10 ** 9:
            v = round(v, 2)          # e.g. round(-0.004, 2) is a NEGATIVE zero with two places
        args = (v, '_') if custom_sep else (v,)
        real, rexc = _run(lambda: FUNCTIONS['pretty'](*args))
        ref = R.r_pretty_number(*args)
    assert rexc is None and real == ref, "pretty(%r%s) = %r, expected %r (sign apart, groups of three from the right)" % (v, ", '_'" if custom_sep else '', real, ref)
    hlib.done()
