"""Nondeterministic contract stub for the `random` module (draws are symbolic harness arguments)."""
import operator

from sqv import hlib


class RandStub:
    def __init__(self, ints, flt):
        self.ints = list(ints)
        self.flt = flt

    def _next(self, lo=0):
        # when the harness supplied fewer symbolic draws than the code consumes, further draws are the smallest legal value
        return self.ints.pop(0) if self.ints else lo

    near = None          # when set to (offset, from_top): draws are lo + offset / hi - offset (concrete ints)

    def random(self):
        f = self.flt
        hlib.assume(0.0 <= f < 1.0)          # contract: [0.0, 1.0)
        return f

    def randint(self, a, b):
        # real randint: operator.index() on both bounds, i.e. TypeError for non-integers
        ia = a if isinstance(a, int) else operator.index(a)
        ib = b if isinstance(b, int) else operator.index(b)
        if ia > ib:
            raise ValueError("empty range for randrange()")
        if self.near is not None:
            off, top = self.near
            r = ib - off if top else ia + off
        else:
            r = self._next(ia)
        hlib.assume(ia <= r <= ib)           # contract: a <= N <= b
        return r

    def randrange(self, start, stop=None, step=1):
        istart = start if isinstance(start, int) else operator.index(start)
        if stop is None:
            if istart <= 0:
                raise ValueError("empty range for randrange()")
            if self.near is not None:
                off, top = self.near
                r = istart - 1 - off if top else off
            else:
                r = self._next(0)
            hlib.assume(0 <= r < istart)
            return r
        istop = stop if isinstance(stop, int) else operator.index(stop)
        istep = step if isinstance(step, int) else operator.index(step)
        if istep != 1:
            raise NotImplementedError("randrange with a step is outside the stub")
        if istart >= istop:
            raise ValueError("empty range for randrange()")
        if self.near is not None:
            off, top = self.near
            r = istop - 1 - off if top else istart + off
        else:
            r = self._next(istart)
        hlib.assume(istart <= r < istop)
        return r

    def uniform(self, a, b):
        f = self.flt
        hlib.assume(0.0 <= f < 1.0)
        return a + (b - a) * f

    def getrandbits(self, k):
        r = self._next()
        hlib.assume(0 <= r < 2 ** k)
        return r

    def sample(self, population, k):
        x = list(population)
        self.shuffle(x)
        return x[:k]

    def choice(self, seq):
        if not len(seq):
            raise IndexError("Cannot choose from an empty sequence")
        i = self._next()
        hlib.assume(0 <= i < len(seq))
        return seq[i]

    def shuffle(self, x):
        # Fisher-Yates with arbitrary draws: reaches every permutation, in place, returns None
        for i in reversed(range(1, len(x))):
            j = self._next()
            hlib.assume(0 <= j <= i)
            x[i], x[j] = x[j], x[i]
        return None


