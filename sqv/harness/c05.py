"""C05 harnesses (reduced scope): every path of the three regex builtins reaches the regex engine only through calls
that carry the small timeout, and makes a bounded number of engine calls."""
from typing import Optional

from sqv import hlib
from smartquery import functions
from smartquery.functions import FUNCTIONS


class FakeMatch:
    def __init__(self, pos):
        self.pos = pos

    def group(self, *a):
        return 'm' if len(a) <= 1 else tuple('m' for _ in a)

    def groups(self, default=None):
        return ('g1', None)

    def start(self, *a):
        return self.pos

    def end(self, *a):
        return self.pos + 1

    def span(self, *a):
        return (self.pos, self.pos + 1)

    def __getitem__(self, i):
        return 'm'


class RegexStub:
    """stands in for the third-party `regex` module: accepts anything, records how the matching engine is entered"""
    I = IGNORECASE = 2
    M = MULTILINE = 8
    S = DOTALL = 16
    X = VERBOSE = 64
    U = UNICODE = 32
    A = ASCII = 256
    class error(Exception):
        """like regex.error / re.error: message, pattern and position as attributes"""

        def __init__(self, msg='', pattern=None, pos=None):
            super().__init__(msg)
            self.msg, self.pattern, self.pos = msg, pattern, pos
            self.lineno = self.colno = None

    groups = 1                  # attributes of a compiled pattern
    groupindex = {}
    pattern = ''
    flags = 0

    def __init__(self, hits, log=None, compiled=False):
        self._hits = [hits]         # how many more searches report a match (symbolic), shared with compiled patterns
        self.log = log if log is not None else []
        self.compiled = compiled

    @property
    def hits(self):
        return self._hits[0]

    @hits.setter
    def hits(self, v):
        self._hits[0] = v

    rejects = False          # this engine refuses to compile the pattern (raises its `error`)
    reject_once = [None]     # shared: the NEXT engine entry / compile is refused with this message, once

    times_out = [False]          # shared flag: the NEXT engine entry hits its timeout (raises TimeoutError), once

    def _enter(self, name, kw):
        self.log.append((name, 'timeout' in kw, kw.get('timeout')))
        if self.rejects:
            raise self.error("engine rejects the pattern")
        if RegexStub.reject_once[0]:
            msg, RegexStub.reject_once[0] = RegexStub.reject_once[0], None
            raise self.error(msg)
        if RegexStub.times_out[0] and 'timeout' in kw:
            RegexStub.times_out[0] = False
            raise TimeoutError("regex timed out")

    def compile(self, pattern, flags=0, **kw):
        if self.rejects:
            raise self.error("engine rejects the pattern")
        if RegexStub.reject_once[0]:
            msg, RegexStub.reject_once[0] = RegexStub.reject_once[0], None
            raise self.error(msg)
        r = RegexStub(0, self.log, True)
        r._hits = self._hits
        return r

    def _one(self, name, a, kw):
        self._enter(name, kw)
        pos = kw.get('pos', 0)
        if self.compiled and len(a) > 1 and isinstance(a[1], int):
            pos = a[1]
        if self.hits > 0:
            self.hits -= 1
            return FakeMatch(pos)      # a one-character match at the position the search started from
        return None

    def search(self, *a, **kw):
        return self._one('search', a, kw)

    def match(self, *a, **kw):
        return self._one('match', a, kw)

    def fullmatch(self, *a, **kw):
        return self._one('fullmatch', a, kw)

    def findall(self, *a, **kw):
        self._enter('findall', kw)
        return ['m'] * (1 if self.hits > 0 else 0)

    def finditer(self, *a, **kw):
        self._enter('finditer', kw)
        return iter([FakeMatch(0)] if self.hits > 0 else [])

    def sub(self, *a, **kw):
        self._enter('sub', kw)
        return ''

    def split(self, *a, **kw):
        self._enter('split', kw)
        return ['']


import time as _time
import types as _types


class Clock:
    """nondeterministic clock: successive readings are arbitrary non-decreasing instants (symbolic increments)"""

    def __init__(self, steps):
        self.steps = list(steps)
        self.now = 0.0

    def __call__(self):
        if self.steps:
            self.now = self.now + self.steps.pop(0)
        return self.now


def _install(stub, clock):
    """replace every regular-expression engine reachable from smartquery.functions (module objects that look like
    re / regex, and precompiled pattern objects held at module level) by the recording stub, and the clock functions
    of `time` by the nondeterministic clock"""
    saved = []
    for name, val in list(vars(functions).items()):
        if isinstance(val, _types.ModuleType) and all(hasattr(val, a) for a in ('compile', 'search', 'findall')):
            saved.append((functions, name, val))
            setattr(functions, name, stub)
        elif type(val).__name__ == 'Pattern':
            saved.append((functions, name, val))
            setattr(functions, name, stub.compile(''))
    for fn in ('time', 'perf_counter', 'monotonic', 'process_time'):
        saved.append((_time, fn, getattr(_time, fn)))
        setattr(_time, fn, clock)
    return saved


def _restore(saved):
    for obj, name, val in reversed(saved):
        setattr(obj, name, val)


def timeout_constant(x: int) -> None:
    """
    pre: True
    post: True
    """
    hlib.enter(locals())
    t = functions.REGEX_TIMEOUT
    assert t is not None and isinstance(t, (int, float)) and 0 < t <= 0.1, "REGEX_TIMEOUT is not a small positive number of seconds"
    hlib.done()


def engine_calls(fi: bool, fm: bool, fs: bool, upper: bool, other: bool, no_flags: bool, omit: bool, hits: int,
                 dt1: float, dt2: float, dt3: float, word_pattern: bool, rejects: bool = False, times_out: bool = False) -> None:
    """
    pre: 0 <= hits <= 4 and 0.0 <= dt1 <= 10.0 and 0.0 <= dt2 <= 10.0 and 0.0 <= dt3 <= 10.0
    post: True
    """
    hlib.enter(locals())
    name = hlib.PARAM["fn"]
    s, pattern = 'abcdefgh', ('transaction_rolled_back plain words' if word_pattern else 'a(b)?')
    flags = ('i' if fi else '') + ('m' if fm else '') + ('s' if fs else '') + ('x' if other else '')
    if upper:
        flags = flags.upper()
    stub = RegexStub(hits)
    saved = _install(stub, Clock([dt1, dt2, dt3]))
    # the engine named `regex` may refuse the pattern; any OTHER engine reachable from the module accepts everything
    first = getattr(functions, 'regex', None)
    if rejects and isinstance(first, RegexStub):
        mine = RegexStub(hits, stub.log)
        mine.rejects = True
        functions.regex = mine
    r = None
    # the first timed engine entry may run into its timeout: whatever the builtin does about that (diagnostics,
    # retries, friendlier messages) must not enter an engine without a timeout either
    RegexStub.times_out[0] = True if times_out else False
    rejects = rejects or (True if times_out else False)
    try:
        f = FUNCTIONS[name]
        try:
            if omit:
                r = f(s, pattern)
            else:
                r = f(s, pattern, None if no_flags else flags)
        except Exception:
            if not rejects:
                raise
    finally:
        RegexStub.times_out[0] = False
        _restore(saved)
    for (what, has, val) in stub.log:
        assert has and val is not None, "%s reaches a regular-expression engine (%s) without a timeout" % (name, what)
        # (the regex module treats 0 as "expire at once" and a NEGATIVE value as "no timeout")
        assert 0 <= val <= 0.1, "%s passes a timeout that is negative or not small (%s)" % (name, what)
    assert len(stub.log) <= 2, "%s enters the regex engine an unbounded number of times (each with a fresh timeout)" % name
    if rejects:
        hlib.done()
        return
    if name == 'match':
        assert r is None or isinstance(r, str)
    elif name == 'match_groups':
        assert r is None or isinstance(r, list)
    else:
        assert isinstance(r, list)
    hlib.done()


# ---- sequences of calls (state that survives a failing call) ----------------------------------------------------------
def call_sequence(f1: int, f3: int, f4: int, r1: bool, r3: bool) -> None:
    """
    pre: 0 <= f1 <= 2 and 0 <= f3 <= 2 and 0 <= f4 <= 2
    post: True
    """
    # four consecutive builtin calls; in any of the first three the engine may refuse the pattern (raises its error
    # after it was entered): every engine entry of EVERY call still carries a timeout in [0, 0.1]
    hlib.enter(locals())
    names = ['match', 'match_groups', 'match_all']
    hits = 1
    f1 = hlib.concrete(f1, 0, 2)
    plan_ = [(f1, True if r1 else False), (f1, True if r1 else False),          # the same call twice (both refused, or neither)
             (hlib.concrete(f3, 0, 2), True if r3 else False), (hlib.concrete(f4, 0, 2), False)]
    t0 = functions.REGEX_TIMEOUT
    logs = []
    for fi, rej in plan_:
        stub = RegexStub(hits)
        saved = _install(stub, Clock([0.0, 0.0, 0.0]))
        first = getattr(functions, 'regex', None)
        if rej and isinstance(first, RegexStub):
            mine = RegexStub(hits, stub.log)
            mine.rejects = True
            functions.regex = mine
        try:
            try:
                FUNCTIONS[names[fi]]('abcdefgh', 'a(b)?', 'i')
            except Exception:
                pass
        finally:
            _restore(saved)
        logs.append((names[fi], list(stub.log)))
    functions.REGEX_TIMEOUT = t0          # (paths are independent: undo whatever the calls left behind)
    for k, (nm, log) in enumerate(logs):
        for (what, has, val) in log:
            assert has and val is not None, "call %d (%s) reaches a regular-expression engine (%s) without a timeout" % (k + 1, nm, what)
            assert 0 <= val <= 0.1, "call %d (%s) passes timeout %r after earlier calls failed: not small" % (k + 1, nm, val)
    hlib.done()


# ---- Python-level work around the engine call ---------------------------------------------------------------------------
class StepBudget(Exception):
    pass


SIZES = [0, 50, 65535, 65537, 100000]


SPECIAL = [None, chr(92) + '{"k": {s<=}' + chr(92) + '}', 'x{i<} {e<=1}', '(?:a|a)+$|(' + chr(92) * 34 + 'x)', '(?P<n>a)(?P=n)' + '[' * 3 + chr(92) + ']' + ']' * 2,
           'a' * 40 + '!' , '{' * 30 + '}' * 30]
MESSAGES = [None, 'bad fuzzy constraint at position 7', 'missing ), unterminated subpattern at position 0', 'nothing to repeat at position 0',
            'bad escape (end of pattern) at position 3', 'unbalanced parenthesis at position 2']


def python_steps(pi: int, si: int, twice: bool, sp: int = 0, mi: int = 0) -> None:
    """
    pre: 0 <= pi < 5 and 0 <= si < 5 and 0 <= sp < 7 and 0 <= mi < 6
    post: True
    """
    # with the engine stubbed, the number of Python source lines executed inside smartquery/functions.py by one builtin
    # call is at most a constant plus a multiple of the lengths of pattern and subject (no unbounded or super-linear
    # Python-level phase before / after the engine call).  Sizes come from a pool that brackets 2**16 and reaches 10**5.
    hlib.enter(locals())
    name = hlib.PARAM["fn"]
    pi, si, sp, mi = hlib.concrete(pi, 0, 4), hlib.concrete(si, 0, 4), hlib.concrete(sp, 0, 6), hlib.concrete(mi, 0, 5)
    hlib.assume(si in (0, 4))
    hlib.assume(sp == 0 or (pi == 0 and not twice))          # special patterns: one call each
    hlib.assume(mi == 0 or sp != 0 or pi == 1)
    twice = True if twice else False
    over = None
    with hlib.native():
        import sys as _sys
        pattern, subject = 'ab|' * (SIZES[pi] // 3) + 'x' * (SIZES[pi] % 3), 'a' * SIZES[si]
        if SPECIAL[sp] is not None:
            pattern = SPECIAL[sp]          # syntax a pre- / post-processing step might look at (braces, escapes, groups)
        cap = 3000 + 4 * (len(pattern) + len(subject))
        count = [0]
        mon = _sys.monitoring
        TOOL = 3
        fname = functions.__file__

        def on_line(code, line):
            if code.co_filename == fname:
                count[0] += 1
                if count[0] > cap:
                    raise StepBudget()
            else:
                return mon.DISABLE
        stub = RegexStub(1)
        saved = _install(stub, Clock([0.0, 0.0, 0.0]))
        mon.use_tool_id(TOOL, "sqv-steps")
        try:
            mon.register_callback(TOOL, mon.events.LINE, on_line)
            mon.set_events(TOOL, mon.events.LINE)
            for _k in range(2 if twice else 1):
                count[0] = 0
                RegexStub.reject_once[0] = MESSAGES[mi]          # the engine may refuse the pattern once, with a realistic message
                try:
                    FUNCTIONS[name](subject, pattern, 'i')
                except StepBudget:
                    over = (len(pattern), len(subject), cap)
                    break
                except Exception:
                    pass
        finally:
            RegexStub.reject_once[0] = None
            mon.set_events(TOOL, 0)
            mon.register_callback(TOOL, mon.events.LINE, None)
            mon.free_tool_id(TOOL)
            mon.restart_events()
            _restore(saved)
    assert over is None, "%s executes more than %d Python lines in functions.py for a pattern of %d and a subject of %d characters (engine stubbed): an unbounded or super-linear phase outside the regex timeout" % (name, over[2] if over else 0, over[0] if over else 0, over[1] if over else 0)
    hlib.done()


# ---- a failing call repeated: whatever it leaves in the module stops changing -------------------------------------------
def _module_state():
    out = {}
    for k, v in vars(functions).items():
        if k.startswith('__') or isinstance(v, (_types.ModuleType, _types.FunctionType, _types.BuiltinFunctionType, type)) or isinstance(v, RegexStub):
            continue
        if k == 'FUNCTIONS':
            continue
        r = repr(v)
        if hasattr(v, '_value'):
            r += ' value=%r' % (getattr(v, '_value'),)          # semaphores / counters
        out[k] = r[:300]
    return out


def failing_call_repeated(fi: int, how: int) -> None:
    """
    pre: 0 <= fi <= 2 and 0 <= how <= 2
    post: True
    """
    # the same failing call (engine refuses the pattern / times out / the subject is not a string) three times in a row:
    # the module-level state after the third call equals the state after the second (caches may fill once; nothing may
    # drift with every failure - a budget, a counter, a slot)
    hlib.enter(locals())
    fi, how = hlib.concrete(fi, 0, 2), hlib.concrete(how, 0, 2)
    name = ['match', 'match_groups', 'match_all'][fi]
    with hlib.native():
        diff = _repeat_failing(name, how)
    assert not diff, "%s failing the same way again and again keeps changing module-level state: %r" % (name, diff)
    hlib.done()


def _repeat_failing(name, how):
    snaps = []
    for _k in range(3):
        stub = RegexStub(1)
        saved = _install(stub, Clock([0.0, 0.0, 0.0]))
        first = getattr(functions, 'regex', None)
        if how == 0 and isinstance(first, RegexStub):
            mine = RegexStub(1, stub.log)
            mine.rejects = True
            functions.regex = mine
        RegexStub.times_out[0] = (how == 1)
        try:
            try:
                FUNCTIONS[name](12345 if how == 2 else 'abcdefgh', 'a(b)?', 'i')
            except Exception:
                pass
        finally:
            RegexStub.times_out[0] = False
            _restore(saved)
        snaps.append(_module_state())
    return {k: (snaps[1].get(k), snaps[2].get(k)) for k in set(snaps[1]) | set(snaps[2]) if snaps[1].get(k) != snaps[2].get(k)}
