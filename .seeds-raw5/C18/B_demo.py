import sys, os; sys.path.insert(0, os.getcwd())

import re

import smartquery
from smartquery import SqParser

assert smartquery.__file__.startswith(os.getcwd()), smartquery.__file__

parser = SqParser()

KEYWORDS = {'and', 'or', 'in', 'not', 'if', 'else', 'True', 'False', 'None', 'del',
            'for', 'while', 'break', 'continue', 'def', 'raise', 'elif'}


def names_in_text(source):
    """the identifiers occurring in a source without strings/comments/%-names, straight from the text"""
    return [w for w in re.findall(r'[^\W\d]\w*', source) if w not in KEYWORDS]


# unusual but legal identifiers: 'fi' ligature, MICRO SIGN, full-width letters, feminine ordinal
sources = [
    'file + 1',
    'ﬁle + 1',                                   # U+FB01 LATIN SMALL LIGATURE FI
    'total * µ',                                 # U+00B5 MICRO SIGN
    'Ｔｒｕｅ and x',                 # full-width "True": an ordinary name, not the keyword
    'nª = 3; nª + 1',                            # U+00AA FEMININE ORDINAL INDICATOR
    'сумма + 1',             # cyrillic name (already NFKC)
]

for src in sources:
    got = list(parser.list_names(src))
    want = names_in_text(src)
    assert got == want, f'list_names({src!r}) = {got!r}, the text contains {want!r}'
    assert not (set(got) & KEYWORDS), f'list_names({src!r}) reports a keyword: {got!r}'

# a host that keys its values by exactly the identifiers written in the source
assert parser.eval('ﬁle + 1', names={'ﬁle': 1}) == 2
assert parser.eval('Ｔｒｕｅ + 1', names={'Ｔｒｕｅ': 41}) == 42

print('ok')
