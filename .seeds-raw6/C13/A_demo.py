import sys, os; sys.path.insert(0, os.getcwd())

import copy

import smartquery
from smartquery import SqParser

assert smartquery.__file__.startswith(os.getcwd()), smartquery.__file__

parser = SqParser()


def run(expr, names):
    """evaluate expr; whatever it returns or raises, the host's values must stay as they were"""
    before = copy.deepcopy(names)
    try:
        parser.eval(expr, names=names)
    except Exception:  # noqa: mixed types are not sortable on the original tree, that is fine
        pass
    assert names == before, f'{expr}: arguments changed: {before} -> {names}'


# homogeneous lists: fine either way
run('sorted(l)', {'l': [3, 1, 2]})
run('sorted(l, v => -v, true)', {'l': [3, 1, 2]})
run('l | sorted | reversed | join(",")', {'l': ['b', 'c', 'a']})

# a list mixing numbers, strings and None placeholders (supplied by the host)
run('sorted(l)', {'l': [3, 'b', None, 1, 'a']})
run('l | sorted(v => v, true) | join(",")', {'l': [3, 'b', None, 1, 'a']})
# key function giving uncomparable keys for a nested list
run('sorted(rows, r => r[0])', {'rows': [[2, 'x'], ['k', 'y'], [1, 'z']]})

print('ok')
