"""Text-level obligations that execute the REAL lexer and parser on concrete texts; the solver (CrossHair) only
enumerates the finite index space (program, rewrite, position), the bodies run natively.  They complement the
symbolic engines where behaviour lives in lexer rule *functions* over the raw text (bracket depth, line counting)."""
import re
from sqv import hlib
from smartquery import SqParser, rules
from smartquery.exceptions import ParserError
from sqv.api import PARSER
from sqv import hlib as _h
with _h.native(unwalled=True):
    CACHING = SqParser(parse_cache={})          # the same texts through a parser with a parse cache

PROGRAMS = [
    "x = f(a, b)\ny = [1, 2, 3]\nx + y[0]",
    "d = {'k': [1, 2], \"j\": g(h(1), 2)}\nd['k'] | map(v => v + 1)",
    "s = \"(\"\nt = ')'\nu = \"[#\" + s\nu",
    "a = ':)'; b = \"{\"; c = '#'\n[a, b, c]",
    "f(\"]\", 1) + g('(', [2, \"}\"])",
    "x = [1, # first (of two\n 2]\nx",
    "if_ = a if b else c\nr = (p, q) => p + q\nr(1, 2)",
    "t = a.f(b).g(c) | h(d) | k\nt[1:2]",
    "del x[0]\nx[1] += 2\nx[a] = {'m': [3]}\nx",
    "%my var% + %a.b% * 2 # trailing ) comment\nnot z",
    "m = [[1, 2],\n     [3, 4]]\nm | map(r => r | sum)",
    "p = 1;q = 2 ; p - -q",
    "v = -x.f(3)\nw = not s.g('a', 1)\nn = 7.str() + [10.max(3), 2][0].str()\n-v.h(w) | k(n)",
    "m = [\n 1,\n 2,\n]\nr = f(a,\n b,\n)\nq = {'k': g(1, ),\n}\nm.push(1,\n)",
    "s = \"page one\x0cpage two\"\nt = %a\x0bb\x1c% # c\u2028 d\x85 e\nu = 'x\u2029y\x1dz'\ns + t + u",
    "\n\nx = 10\ny = 20\n\nx + y\n",
    "r = (a not in b)\nf(x not in [1, 2], [y not in z])\nq = {'k': p not in q,\n 'j': not m, 'i': n in o}\nr if a not in r else (not q)",
    "g = x => x if x > 0 else 0\nh = (a, b) => a if a else b\nl | map(v => v if v else 1) | filter(w => not w)\ng(1) + h(2, 3)",
    "d = {'a': x, 'a': y, 1: p, 1.0: q, True: r, None: 1, None: 2}\ne = {k: 1, k: 2}\nf({'z': 0, \"z\": 0})\nd",
    "x = 10\n-x\nt = a\n[0]\nu = f\n(1)\nv = u\nnot v\nw = 7.5\n- 1",
    "a = 1\n" + ";\n" * 150 + "# c\n" * 40 + "b = a\n" + "b\n" * 130 + "a",
]


def tokens_of(text):
    """(type, text, start, end, depth_before, depth_after) of the tokens of a text that the REAL parser accepts (None if it
    does not), located with the independent tokeniser of spec/reflang.py: the places where a rewrite applies must not
    depend on the lexer under test (a lexer that swallows a line break would otherwise hide that very line break)."""
    if tokens_of_real(text) is None:
        return None
    from spec import reflang
    return reflang.ref_tokens_pos(text)


def tokens_of_real(text):
    """(type, value, start, end, depth_before, depth_after) of every token the real lexer hands to the real parser while
    SqParser.parse(text) runs (None if that fails).  The lexer is driven by parse() itself, so whatever state parse()
    prepares on it (or on a clone of it) is prepared here too."""
    cls = type(PARSER.lex)
    orig = cls.token
    out = []
    depth = [0]

    def recording(self):
        t = orig(self)
        if t is not None:
            d0 = depth[0]
            if t.type in ('LPAREN', 'LBRACKET', 'LBRACE'):
                depth[0] += 1
            elif t.type in ('RPAREN', 'RBRACKET', 'RBRACE'):
                depth[0] -= 1
            out.append((t.type, t.value, t.lexpos, self.lexpos, d0, depth[0]))
        return t
    cls.token = recording
    try:
        try:
            PARSER.parse(text)
        except Exception:
            return None
    finally:
        cls.token = orig
    return out


def parse_outcome(text, parser=None):
    p = parser or PARSER
    try:
        return ('ok', repr(p.parse(text)))
    except ParserError as e:
        return ('parser_error', str(e))
    except Exception as e:
        return ('other', type(e).__name__ + ': ' + str(e))


REWRITES = ['space', 'tab', 'comment', 'break_in_brackets', 'crlf', 'semicolon_for_newline', 'newline_for_semicolon',
            'blank_newline', 'blank_semicolon', 'leading_newline', 'trailing_newline', 'comment_line', 'spaces_around_all',
            'trailing_comma', 'parens_literal', 'parens_name', 'dot_to_pipe', 'newline_for_blank']
OPERAND_BEFORE = {'PLUS', 'MINUS', 'TIMES', 'DIVIDE', 'POWER', 'EQ', 'NE', 'GT', 'LT', 'GTE', 'LTE', 'AND', 'OR', 'IN', 'NOT', 'LPAREN',
                  'LBRACKET', 'COMMA', 'ASSIGN', 'SHORT_OP', 'COLON', 'IF', 'ELSE', 'NEWLINE', 'LAMBDA', 'LBRACE', None}
OPERAND_AFTER_BAD = {'LPAREN', 'LAMBDA', 'ASSIGN', 'SHORT_OP'}


def rewrite(text, kind, pos):
    """returns the rewritten text, or None when the rewrite is not applicable at that position"""
    toks = tokens_of(text)
    if toks is None:
        return None
    bounds = sorted({t[2] for t in toks} | {t[3] for t in toks} | {0, len(text)})
    if kind in ('space', 'tab'):
        if pos >= len(bounds):
            return None
        b = bounds[pos]
        return text[:b] + (' ' if kind == 'space' else '\t') + text[b:]
    if kind == 'spaces_around_all':
        out, last = [], 0
        for t in toks:
            out.append(text[last:t[2]] + ' ')
            out.append(text[t[2]:t[3]] + '\t ')
            last = t[3]
        return ''.join(out) + text[last:]
    if kind == 'comment':
        ends = [t[2] for t in toks if t[0] == 'NEWLINE' and t[1] != ';'] + [len(text)]
        if pos >= len(ends):
            return None
        b = ends[pos]
        return text[:b] + ' # c ( [ " \' {' + text[b:]
    if kind == 'comment_line':
        ends = [t[3] for t in toks if t[0] == 'NEWLINE' and t[1] != ';']
        if pos >= len(ends):
            return None
        b = ends[pos]
        return text[:b] + '# whole line ) ]\n' + text[b:]
    if kind == 'break_in_brackets':
        inside = [t[3] for t in toks if t[5] > 0]
        if pos >= len(inside):
            return None
        b = inside[pos]
        return text[:b] + '\n' + text[b:]
    if kind == 'newline_for_blank':
        # every blank that stands inside brackets and is neither part of a string literal, a %..% name nor a comment
        # becomes a line break (also blanks the lexer under test swallows into some longer token)
        spots = []
        n = 0
        for t in toks:
            gap_start = toks[n - 1][3] if n else 0
            in_comment = False
            for q in range(gap_start, t[2]):
                if text[q] == '#':
                    in_comment = True
                elif text[q] == '\n':
                    in_comment = False
                elif text[q] == ' ' and not in_comment and t[4] > 0:
                    spots.append(q)
            if t[0] != 'STRING' and not (t[0] == 'NAME' and str(text[t[2]:t[3]]).startswith('%')) and t[4] > 0:
                spots += [q for q in range(t[2], t[3]) if text[q] == ' ']
            n += 1
        spots = sorted(set(spots))
        if pos >= len(spots):
            return None
        b = spots[pos]
        return text[:b] + ('\n' if pos % 2 == 0 else '\r\n') + text[b + 1:]
    if kind == 'crlf':
        if pos > 0:
            return None
        return text.replace('\n', '\r\n')
    if kind == 'semicolon_for_newline':
        nl = []
        for n, t in enumerate(toks):
            if t[0] == 'NEWLINE' and t[1] != ';':
                prev_end = toks[n - 1][3] if n else 0
                if '#' not in text[prev_end:t[2]]:        # a ';' after a comment would become part of the comment
                    nl.append(t)
        if pos >= len(nl):
            return None
        t = nl[pos]
        return text[:t[2]] + ';' + text[t[3]:]
    if kind == 'newline_for_semicolon':
        sc = [t for t in toks if t[0] == 'NEWLINE' and t[1] == ';' and t[4] == 0]
        if pos >= len(sc):
            return None
        t = sc[pos]
        return text[:t[2]] + '\n' + text[t[3]:]
    if kind in ('blank_newline', 'blank_semicolon'):
        seps = [t[3] for t in toks if t[0] == 'NEWLINE']
        if pos >= len(seps):
            return None
        b = seps[pos]
        return text[:b] + ('\n' if kind == 'blank_newline' else ' ; ') + text[b:]
    if kind == 'trailing_comma':
        # before the closer of a non-empty call (NAME directly before the opener) or list literal
        stack, spots = [], []
        for n, t in enumerate(toks):
            if t[0] in ('LPAREN', 'LBRACKET', 'LBRACE'):
                prev = toks[n - 1][0] if n else None
                is_call = t[0] == 'LPAREN' and prev == 'NAME' and (n < 2 or toks[n - 2][0] not in ())
                is_list = t[0] == 'LBRACKET' and prev in OPERAND_BEFORE
                stack.append((t[0], is_call or is_list, n))
            elif t[0] in ('RPAREN', 'RBRACKET', 'RBRACE') and stack:
                op, ok, start = stack.pop()
                nonempty = n - start > 1
                # a call whose parenthesis is followed by => is a lambda parameter list, not a call
                is_lambda = n + 1 < len(toks) and toks[n + 1][0] == 'LAMBDA'
                if ok and nonempty and not is_lambda and toks[n - 1][0] != 'COMMA':
                    spots.append(t[2])
        if pos >= len(spots):
            return None
        b = spots[pos]
        return text[:b] + ', ' + text[b:]
    if kind in ('parens_literal', 'parens_name'):
        spots = []
        for n, t in enumerate(toks):
            prev = toks[n - 1][0] if n else None
            nxt = toks[n + 1][0] if n + 1 < len(toks) else None
            if prev in ('DOT', 'PIPE', 'DEL'):
                continue
            if kind == 'parens_literal' and t[0] in ('NUMBER', 'STRING', 'TRUE', 'FALSE', 'NONE'):
                spots.append((t[2], t[3]))
            if kind == 'parens_name' and t[0] == 'NAME' and prev in OPERAND_BEFORE and nxt not in OPERAND_AFTER_BAD:
                # not a lambda parameter inside ( .. ) =>, not an assignment target at the start of a statement
                if prev == 'NEWLINE' or prev is None:
                    continue
                j = n
                depth, lam = 0, False
                for m in range(n + 1, len(toks)):
                    if toks[m][0] in ('LPAREN', 'LBRACKET', 'LBRACE'):
                        depth += 1
                    elif toks[m][0] in ('RPAREN', 'RBRACKET', 'RBRACE'):
                        depth -= 1
                        if depth < 0:
                            lam = m + 1 < len(toks) and toks[m + 1][0] == 'LAMBDA' and toks[m][0] == 'RPAREN'
                            break
                if lam:
                    continue
                spots.append((t[2], t[3]))
        if pos >= len(spots):
            return None
        a, b = spots[pos]
        return text[:a] + '(' + text[a:b] + ')' + text[b:]
    if kind == 'dot_to_pipe':
        spots = [t for n, t in enumerate(toks) if t[0] == 'DOT' and n + 3 < len(toks) and toks[n + 1][0] == 'NAME'
                 and toks[n + 2][0] == 'LPAREN' and toks[n + 3][0] != 'RPAREN']
        if pos >= len(spots):
            return None
        t = spots[pos]
        return text[:t[2]] + ' | ' + text[t[3]:]
    if kind == 'leading_newline':
        return ('\n' + text) if pos == 0 else ((';' + text) if pos == 1 else None)
    if kind == 'trailing_newline':
        return (text + '\n') if pos == 0 else ((text + ' ;') if pos == 1 else None)
    return None


with _h.native():
    # number of applicable positions per (program, rewrite) and of token boundaries per program (computed once, natively)
    NPOS = {}
    for _pi, _prog in enumerate(PROGRAMS):
        for _ri, _kind in enumerate(REWRITES):
            _n = 0
            while _n < 60 and rewrite(_prog, _kind, _n) is not None:
                _n += 1
            NPOS[(_pi, _ri)] = _n
    NBOUND = {}
    for _pi, _prog in enumerate(PROGRAMS):
        NBOUND[_pi] = max(len(sorted({t[2] for t in (tokens_of(v) or [])})) + 1
                          for v in (_prog, _prog.replace('\n', '\r\n'), rewrite(_prog, 'semicolon_for_newline', 0) or _prog))


def layout_rewrite(ri: int, pos: int) -> None:
    """
    pre: 0 <= ri < 18 and pos == 0
    post: True
    """
    # the solver chooses the rewrite kind; every applicable position of that rewrite is then tried natively in one path
    hlib.enter(locals())
    pi = hlib.PARAM["program"]
    ri = hlib.concrete(ri, 0, 17)
    with hlib.native():
        a0 = parse_outcome(PROGRAMS[pi])
    assert a0[0] == 'ok', "base program does not parse: %r" % (a0,)
    hlib.assume(NPOS[(pi, ri)] > 0)
    bad = None
    with hlib.native():
        base = PROGRAMS[pi]
        a, a2 = parse_outcome(base), parse_outcome(base, CACHING)
        for q in range(NPOS[(pi, ri)]):
            new = rewrite(base, REWRITES[ri], q)
            if new is None:
                break
            b, b2 = parse_outcome(new), parse_outcome(new, CACHING)
            if a != b:
                bad = "layout rewrite %s at #%d changes the parsed program: %r -> %r" % (REWRITES[ri], q, base, new)
            elif a2 != a or b2 != b:
                bad = "a parser with a parse cache parses %r or %r differently" % (base, new)
            if bad:
                break
    assert a[0] == 'ok', "base program does not parse: %r" % (a,)
    assert bad is None, bad
    hlib.done()


STRAY = [')', ']', 'stray', '=>', '}', '1.5', ':', '$', '"', 'for', '))', '\x00', '0', "''", ';', '\n', '.', ',', 'not', 'if', '%', '\\', '0.0', '==', '\r\n', '#']
_BS = chr(92)
# string literals with backslash sequences that are NOT escapes of the language (kept verbatim by the published lexer)
STRAY += ['\ufb01le', '\u00b5', '\uff58\uff59', '%\u00b5.rate%', 'Stra\u00dfe']
STRAY += ['"C:' + _BS + 'users' + _BS + 'me"', '"' + _BS + 'x4"', '"' + _BS + 'N{nope}"', "'" + _BS + 'U00110000 ' + _BS + "u12'", '"' + _BS + '777' + _BS + '8"', 'r"' + _BS + 'x"']


def first_error_index(parser, types):
    """index of the first token type for which the LR tables have no action (len(types) = end of input; None = accepted)"""
    lr = parser.yacc
    action, goto, prods, defaulted = lr.action, lr.goto, lr.productions, lr.defaulted_states
    stack = [0]
    seq = list(types) + ['$end']
    i = 0
    steps = 0
    while steps < 100000:
        steps += 1
        st = stack[-1]
        if st in defaulted:
            a = defaulted[st]
        else:
            a = action[st].get(seq[i])
        if a is None:
            return i
        if a > 0:
            stack.append(a)
            i += 1
        elif a < 0:
            p = prods[-a]
            if p.len:
                del stack[-p.len:]
            stack.append(goto[stack[-1]][p.name])
        else:
            return None
    return None


def _damage(pi, si, pos, sep, trunc, pre_list, cached, class_only, soundness=False):
    """one damaged text through the real lexer+parser; returns a failure message or None ('skip' when pos is past the end)"""
    P = CACHING if cached else PARSER
    base = PROGRAMS[pi]
    if sep == 1:
        base = base.replace('\n', '\r\n')
    elif sep == 2:
        base = rewrite(base, 'semicolon_for_newline', 0) or base
    toks = tokens_of(base)
    if toks is None:
        return "base program %r does not parse" % (base,)
    bounds = sorted({t[2] for t in toks}) + [len(base)]
    if pos >= len(bounds):
        return 'skip'
    b = bounds[pos]
    text = base[:b] if trunc else base[:b] + ' ' + STRAY[si] + ' ' + base[b:]
    if pre_list:
        # an earlier, partly consumed list_names() on multi-line text with an open bracket must not matter
        g = P.list_names("a = [1,\n 2,\n b(\n c")
        next(g, None)
        next(g, None)
        list(P.list_names("x\ny\n(z"))
    seen = {}
    orig = P.yacc.errorfunc
    raw = []
    cls = type(P.lex)
    orig_token = cls.token

    def rec(p):
        seen['tok'] = p
        return orig(p)

    def recording(self):
        t = orig_token(self)
        if t is not None:
            raw.append((t.type, t.value, t.lexpos, self.lexpos))
        return t
    P.yacc.errorfunc = rec
    cls.token = recording
    try:
        try:
            P.parse(text)
            res = ('ok',)
        except ParserError as e:
            res = ('parser_error', str(e), seen.get('tok', 'none'))
        except Exception as e:
            res = ('other', type(e).__name__ + ': ' + str(e))
    finally:
        P.yacc.errorfunc = orig
        cls.token = orig_token
    if res[0] == 'other':
        return "%r: %s" % (text, res[1])
    if cached:
        # the same damaged text once more through the parser with a parse cache: the same outcome again
        try:
            P.parse(text)
            again = ('ok',)
        except ParserError as e:
            again = ('parser_error', str(e))
        except Exception as e:
            again = ('other', type(e).__name__ + ': ' + str(e))
        if again[0] != res[0] or (again[0] == 'parser_error' and again[1] != res[1]):
            return "%r parsed a second time by a parser with a parse cache: %r, the first time %r" % (text, again, res[:2])
    if soundness:
        # accepted => the published token definitions accept every character and the published productions derive the text
        if res[0] == 'ok':
            from spec import reflang
            rt = reflang.ref_tokens(text)
            if rt is None:
                return "%r is accepted although the published token definitions reject one of its characters" % (text,)
            if not reflang.derivable(rt):
                return "%r is accepted although the published grammar does not derive its token string %s" % (text, ' '.join(rt))
        return None
    if class_only:
        return None
    if res[0] == 'parser_error' and res[2] != 'none':
        tok = res[2]
        # the OFFENDING token, determined independently of what reaches p_error: the first token the lexer produced at
        # which the LR automaton (the parser's own tables, driven here by a plain loop) has no action
        k = first_error_index(P, [t[0] for t in raw])
        if k is not None and k < len(raw):
            want = raw[k]
            if tok is None or tok.lexpos != want[2]:
                return "%r: the first token without a continuation is %r at offset %d, but the error reports %s" % (
                    text, want[1], want[2], 'end of input' if tok is None else '%r at offset %d' % (tok.value, tok.lexpos))
        if k is not None and k >= len(raw) and tok is not None:
            return "%r: every token has a continuation (the text ends too early), but the error reports %r at offset %d" % (text, tok.value, tok.lexpos)
        if tok is not None and k is not None and k < len(raw):
            src = text[raw[k][2]:raw[k][3]]
            if re.fullmatch(r'%[^%]*%|[^\W\d]\w*', src) and src not in res[1]:
                return "%r: the offending token is written %r, but the message %r does not show it" % (text, src, res[1])
        if tok is None:
            if 'end of input' not in res[1].lower():
                return "error at the very end of %r is not reported as unexpected end of input: %s" % (text, res[1])
        else:
            line = 1 + text[:tok.lexpos].count('\n')
            if str(tok.value) not in res[1]:
                return "message %r does not name the offending token %r" % (res[1], tok.value)
            if ('line %d' % line) not in res[1]:
                return "%r: message %r, but the offending token %r stands on physical line %d" % (text, res[1], tok.value, line)
    return None


def error_line(si: int, pos: int, sep: int, trunc: bool, pre_list: bool = False, cached: bool = False) -> None:
    """
    pre: 0 <= si < 37 and pos == 0 and 0 <= sep <= 2
    post: True
    """
    # a valid program made invalid by a stray token at a token boundary (or truncated there): the message names the
    # reported token's text and the physical line it stands on, whatever separators / bracketed line breaks precede it.
    # The solver chooses stray token, separator variant, truncation, earlier list_names() and cache; every token
    # boundary of the program is then damaged natively within the path.
    hlib.enter(locals())
    pi = hlib.PARAM["program"]
    class_only = bool(hlib.PARAM.get("class_only"))
    soundness = bool(hlib.PARAM.get("soundness"))
    si, sep = hlib.concrete(si, 0, 36), hlib.concrete(sep, 0, 2)
    trunc = True if trunc else False
    pre_list = True if pre_list else False
    cached = True if cached else False
    hlib.assume(not trunc or si == 0)          # truncation ignores the stray token
    hlib.assume(hlib.deep() or not cached or (si <= 1 and not pre_list))
    hlib.assume(hlib.deep() or not pre_list or (sep == 0 and si <= 2 and not trunc))
    bad = None
    with hlib.native():
        for q in range(NBOUND[pi] + 1):
            r = _damage(pi, si, q, sep, trunc, pre_list, cached, class_only, soundness)
            if r == 'skip':
                break
            if r is not None:
                bad = r
                break
    assert bad is None, bad
    hlib.done()
