import sys, os; sys.path.insert(0, os.getcwd())

import smartquery
from smartquery import SqParser, ParserError
from smartquery.ast_ops import LambdaOp, NameOp
from smartquery.exceptions import OpsExecutionLimitExceededError

assert smartquery.__file__.startswith(os.getcwd()), smartquery.__file__


def outcome(parser, prog, n, names=None, **kw):
    try:
        return 'ok', parser.eval(prog, names=names if names is not None else {}, max_ops_evaluated=n, **kw)
    except OpsExecutionLimitExceededError:
        return 'limit', None


# 1. one call, a lambda literal inside the body of another lambda.
#    node evaluations: code, map, list, 1, 2, 3, outer lambda = 7;
#    per outer item: map, list, 10, 20, inner lambda = 5, plus 2 x (x + y, x, y) = 6  ->  3 x 11 = 33.
#    The program starts 40 operations, so it may only return with a budget of 41 or more.
parser = SqParser()
nested = '[1, 2, 3] | map(x => [10, 20] | map(y => x + y))'
assert outcome(parser, nested, 41) == ('ok', [[11, 21], [12, 22], [13, 23]])
for n in (40, 39):
    kind, _ = outcome(parser, nested, n)
    assert kind == 'limit', f'nested lambda literal: 40 operations were started under a budget of {n}'


# 2. the same text evaluated again by a parser with a parse cache: every call has its own budget and
#    the same (program, bindings, N) must give the same outcome each time.
#    code, assign, lambda, call f, 1, call tick, x = 7 operations -> needs a budget of 8; with 7 the
#    7th operation (x) is refused and the host function is never reached.
cached = SqParser(parse_cache={})
prog = 'f = x => tick(x); f(1)'
for attempt in range(3):
    calls = []
    kind, _ = outcome(cached, prog, 7, names={'tick': calls.append})
    assert kind == 'limit' and calls == [], \
        f'call #{attempt + 1} with budget 7: outcome {kind}, host effects {calls} (7 operations needed)'


# 3. pre-parsed definitions (ast_names) that the host passes to every call
double = LambdaOp(args=[NameOp('a')], expr=parser.parse('a + a').lines[0])
for attempt in range(3):
    # lambda (ast_names), code, call, 2, a + a, a, a = 7 operations
    kind, _ = outcome(parser, 'double(2)', 7, ast_names={'double': double})
    assert kind == 'limit', f'ast_names call #{attempt + 1} with budget 7 returned normally'
    assert outcome(parser, 'double(2)', 8, ast_names={'double': double}) == ('ok', 4)

print('ok')
