import sys, os; sys.path.insert(0, os.getcwd())

from fractions import Fraction

import smartquery
from smartquery import SqParser

assert smartquery.__file__.startswith(os.getcwd()), smartquery.__file__

parser = SqParser()

# ordinary uses behave the same with and without the change
assert parser.eval('max(1, 2)') == 2
assert parser.eval('min(0, 5)') == 0
assert parser.eval('max(0, -3)') == 0
assert parser.eval('max([0.1 + 0.2, 0.25])') == Fraction(3, 10)
assert parser.eval('min([1.5, -2.5, 3])') == Fraction(-5, 2)
assert parser.eval('sum([0.1, 0, 0.2])') == Fraction(3, 10)

# min / max must agree with the exact rational order of their arguments, also when
# the extreme element of a LIST argument happens to be (exactly) zero.
cases = [
    'max([0, -1])',
    'max([-0.5, 0.1 - 0.1, -2])',
    'min([0, 3])',
    'min([2.5, 0.1 + 0.2 - 0.3, 1])',
    '[-1.5, 0, -0.25]|max',
    '[0.75, 0.0, 1]|min',
    'max([1 - 1, 0.5 - 1])',
]

failures = []
for expr in cases:
    inner = expr[expr.index('['):expr.rindex(']') + 1]
    elements = [Fraction(v) for v in parser.eval(inner)]
    exact = max(elements) if 'max' in expr else min(elements)
    try:
        got = Fraction(parser.eval(expr))
    except Exception as e:  # noqa
        got = repr(e)
    if got != exact:
        failures.append((expr, got, exact))

for f in failures:
    print('%s -> %s, exact answer is %s' % f)

assert not failures, f'{len(failures)} min/max results disagree with the exact rational order'
print('OK')
