from sqv.driver import Obligation
from sqv import nodes


def plan(ctx):
    quick = ctx["tier"] == "quick"
    T = 90 if quick else 400
    from sqv.harness import c17 as h
    obs, uncovered = [], []
    for p in nodes.kind_params():
        if p["op"] not in (None, '+', 'and', '-', '+='):
            continue
        oid = f"tree.{p['kind']}" + (f".{p['op']}" if p['op'] else "")
        try:
            nodes.build(p["kind"], p["op"], [], [0, 0, 0, 0], 1)
        except nodes.Uncovered as e:
            uncovered.append(str(e))
            continue
        if p["kind"] == "CallOp":
            obs.append(Obligation(oid + ".builtin", "xh", "c17", "node_unaltered", param={**p, "builtin": True}, timeout=T,
                                  bounds="call site resolving to a real builtin; 1..2 evaluations", desc="evaluating a builtin call leaves the node (fields AND instance attributes) identical"))
        obs.append(Obligation(oid, "xh", "c17", "node_unaltered", param=p, timeout=T,
                              bounds="child fields 0..2, child truth values symbolic, one child may raise, 1..2 evaluations",
                              desc="evaluating the real node (incl. failing children) leaves its fields identical; container results are fresh"))
    for t1, text in enumerate(h.TEXTS):
        obs.append(Obligation(f"cache.seq.t{t1}", "xh", "c17", "cache_sequence", param={"t1": t1, "quick": quick}, timeout=T * 2,
                              bounds=("QUICK: third call repeats the first. " if quick else "third call on one of 4 texts derived from the first two. ") + "3 calls: first on this text, the other two over 13 texts (repeats, whitespace / newline / CR / NBSP near-duplicates, "
                                     "failing sources, nested literals); parse or eval per call; cache forgets everything before any call or not, stores what it is given or drops it (always-evicting); one call may shadow a builtin through its names; "
                                     "pre-warmed or empty; host deep-mutates earlier results or not (all symbolic; bodies run natively)",
                              desc=f"call sequences starting with {text!r}: cached parser == uncached parser, call by call"))
    obs.append(Obligation("node.lambda_reentry", "xh", "c17", "lambda_reentry", timeout=T * 2,
                          bounds="closure re-entered 1 / 3 / 60 / 70 / 130 / 260 deep, ending normally or with an error at the bottom, 1..3 times in a row (finite domain, native)",
                          desc="the LambdaOp node (a cached tree keeps it) has the same field values before and after calls of its closure, and a later shallow call still works"))
    obs.append(Obligation("cache.ast_names_identity", "xh", "c17", "ast_names_identity", timeout=T * 2,
                          bounds="5 definitions x 4 uses, budget 5..40 (finite domain, native)",
                          desc="two ast_names entries parsed separately from the same text: evaluation (values, aliasing of what lands in the host's mapping, ops charged) is the same with and without the cache"))
    obs.append(Obligation("cache.pairs", "xh", "c17", "pair_sequence", timeout=T * 4,
                          bounds="32 pairs of texts (incl. very deep expressions, texts differing only in a line break) (near-duplicates that differ where it matters: blank runs inside %names% and strings, case, comments; failing texts with open brackets / illegal characters followed by multi-line texts; names that look like bookkeeping keys); either order, parse or eval, repeated or not; cache pre-warmed with none / one / both, storing or dropping (all symbolic; bodies run natively)",
                          desc="cached parser == uncached parser call by call; every string key left in the host's mapping (incl. by the constructor) behaves as a source text the same with and without the cache"))
    return {
        "obligations": obs, "uncovered": uncovered,
        "explanation": "CrossHair (z3): (1) every node class's real eval leaves the node's fields identical and never returns a mutable part "
                       "of the tree; (2) the real SqParser with a host cache vs one without, over a symbolic schedule of calls, evictions, "
                       "pre-warming and host mutation of earlier results.",
        "functions": ["smartquery.sq_parser.SqParser.parse/eval", "smartquery.ast_ops.*.eval", "list/dict literal actions in smartquery.rules"],
        "files": ["smartquery/sq_parser.py", "smartquery/ast_ops.py", "smartquery/rules.py"],
        "bounds": "sequences of 3 calls over 12 texts; whole-cache eviction events",
        "outside": "longer sequences; caches that evict single entries selectively (whole-cache eviction between calls covers what a later call can observe)",
        "stubs": ["stub child nodes"],
        "assumptions": ["the finite schedule space is enumerated by the solver through index variables; bodies run concretely"],
        "trusted": ["CrossHair 0.0.110", "z3"],
    }
