from sqv.driver import Obligation

SIZED = ["a + b", "x = a\nx += b\nx", "x = [a]\nx[0] += b\nx[0]", "x = a\nx *= k\nx", "x = [a]\nx[0] *= k\nx[0]",
         "a + b + a", "[a, b] | reduce((p, q) => p + q)", "[a, b] | sum", "sum([a, b, a])", "values({'p': a, 'q': b}) | sum"]
SMALL = [
    ("list_literal", "[a, b, k]", 3), ("dict_literal", "{'p': a, 'q': b}", 2), ("map", "a | map(v => v)", 0),
    ("filter", "a | filter(v => v)", 0), ("sorted", "sorted(a)", 0), ("reversed", "reversed(a)", 0), ("enumerate", "enumerate(a)", 0),
    ("list", "list(a, b)", 2), ("slice_from", "a[k:]", 0), ("slice_step", "a[::k]", 0), ("slice_to", "a[:k]", 0),
    ("split", "s | split(',')", 0), ("match_all", "s | match_all('a')", 0), ("map_str", "s | map(c => c)", 0),
    ("keys", "keys({'p': a})", 1), ("values", "values({'p': a})", 1), ("items", "items({'p': a})", 1), ("dict", "dict()", 0),
    ("list0", "list()", 0), ("sorted_dict", "sorted({'p': k, 'q': k})", 2), ("map_dict", "{'p': k} | map((x, y) => y)", 1),
]


def plan(ctx):
    T = 40 if ctx["tier"] == "quick" else 240
    obs = [Obligation("constant", "xh", "c03", "cap_constant", timeout=T, bounds="x unbounded",
                      desc="forall x: (x >= MAX_ARRAY_SIZE) == (x >= 10000)")]
    for fn in ("push", "insert", "__setitem__", "__setitem_with_op__"):
        obs.append(Obligation(f"list.{fn}", "xh", "c03", "mut_list", param={"fn": fn}, timeout=T,
                              bounds="list length symbolic and unbounded (>= 1), index and value unbounded ints",
                              desc=f"FUNCTIONS[{fn!r}] on a list of arbitrary length: ParserError and unchanged iff len >= 10000; else grows by <= 1"))
        obs.append(Obligation(f"sized.{fn}", "xh", "c03", "mut_sized", param={"fn": fn}, timeout=T,
                              bounds="list abstracted to its LENGTH (unbounded symbolic int), index and value unbounded ints; replay on a real list",
                              desc=f"FUNCTIONS[{fn!r}]: ParserError and unchanged length iff len >= 10000 (every index, incl. i >= len and negatives)"))
        obs.append(Obligation(f"list0.{fn}", "xh", "c03", "mut_list_empty", param={"fn": fn}, timeout=T,
                              bounds="empty list, index -3..3", desc="same on the empty list (excluded from the obligation above by its witness index)"))
    for fn in ("__setitem__", "__setitem_with_op__"):
        obs.append(Obligation(f"dict.{fn}", "xh", "c03", "mut_dict", param={"fn": fn}, timeout=T,
                              bounds="dict length symbolic and unbounded; contents abstracted by a dict subclass with symbolic __len__",
                              desc=f"FUNCTIONS[{fn!r}] on a dict of arbitrary size"))
    from sqv.harness import c03 as h
    for k, text in h.API_TEXTS.items():
        obs.append(Obligation(f"api.{k}", "xh", "c03", "api_mut", param={"api": k}, timeout=T * 2,
                              bounds="host list of symbolic unbounded length", desc=f"SqParser.eval({text!r})"))
    for i, text in enumerate(SIZED):
        obs.append(Obligation(f"growth.sized.t{i}", "xh", "c03", "growth_sized", param={"text": text}, timeout=T,
                              bounds="operand list LENGTHS symbolic and unbounded (contents abstracted by a list subclass with symbolic "
                                     "__len__ / concatenation / repetition; replay uses real lists); k in 0..3",
                              desc=f"eval({text!r}): len(result) <= max(10000, len(a), len(b))"))
    for i, text in enumerate(["a + b", "x = a\nx += b\nx"]):
        obs.append(Obligation(f"growth.str.t{i}", "xh", "c03", "growth_str", param={"text": text}, timeout=T,
                              bounds="operand string LENGTHS symbolic and unbounded (str subclass with symbolic __len__/concatenation; replay uses "
                                     "real strings and maps the result to a list)",
                              desc=f"eval({text!r}) on strings, then map(c => c): list no longer than max(10000, operands)"))
    from smartquery.functions import FUNCTIONS
    for fn in sorted(FUNCTIONS):
        if fn in ('rand', 'shuffle', 'match', 'match_groups', 'match_all', 'pretty'):
            continue          # nondeterministic / C-engine builtins: no list argument is modified by them (C13), none adds elements
        obs.append(Obligation(f"sized_any.{fn}", "xh", "c03", "sized_any", param={"fn": fn}, timeout=T,
                              bounds="first argument: list abstracted to its LENGTH, 9996..10001 (symbolic); then an optional index (-1..1 from either end) and 0..4 further int arguments (surplus / rarely used argument forms)",
                              desc=f"FUNCTIONS[{fn!r}](list, ...): the list never ends above the cap, a full list never grows"))
    obs.append(Obligation("pair_growth", "xh", "c03", "pair_growth", timeout=T * 6,
                          bounds="every builtin (index symbolic) applied to two real dicts / two real lists / three real dicts with disjoint keys, sizes from {0, 1, 6000, 9999, 10000} (finite domain; bodies run natively)",
                          desc="multi-argument forms: no result and no argument ends longer than max(10000, the arguments)"))
    obs.append(Obligation("history_cap", "xh", "c03", "history_cap", timeout=T * 6,
                          bounds="first eval: 6 programs (succeeding / failing) over host containers of 0 / 10000 / 10001 / 25000 elements; second eval: 6 element-adding programs on full containers; same or another parser (finite domain; bodies run natively)",
                          desc="the cap enforced by an evaluation does not depend on what earlier evaluations saw or how they ended"))
    for key, text, lit in SMALL:
        obs.append(Obligation(f"growth.small.{key}", "xh", "c03", "growth_small", param={"text": text, "lit": lit}, timeout=T * 2,
                              bounds="host lists a, b and string s of length <= 3 (symbolic contents), k in -3..3",
                              desc=f"eval({text!r}): result never longer than the longest operand / the literal spelled out"))
    return {
        "obligations": obs,
        "uncovered": ["shuffle in the non-growth table (random.shuffle is C/nondeterministic under CrossHair); C19 proves its result is a permutation"],
        "explanation": "CrossHair (z3) symbolic execution of the real mutators (taken from the FUNCTIONS table) and of "
                       "templates through SqParser.eval, with the container LENGTH a symbolic unbounded integer.",
        "functions": ["smartquery.functions._push", "_insert", "_set", "_set_with_op", "_check_array_size",
                      "smartquery.ast_ops.BinOp.eval", "ShortOp.eval", "growth routes through SqParser.eval"],
        "files": ["smartquery/functions.py", "smartquery/ast_ops.py"],
        "bounds": "none on list length (LIA over CrossHair's symbolic sequences); dict contents abstracted",
        "outside": "sequences of operations follow from the one-step obligations (containers have no hidden state)",
        "stubs": ["LenDict: dict subclass with symbolic __len__"],
        "assumptions": ["CrossHair's model of list/str"],
        "trusted": ["CrossHair 0.0.110", "z3"],
    }
