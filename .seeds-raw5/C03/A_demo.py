import sys, os; sys.path.insert(0, os.getcwd())

import smartquery
assert smartquery.__file__.startswith(os.getcwd()), smartquery.__file__

from smartquery import SqParser
from smartquery.exceptions import ParserError

CAP = 10000
parser = SqParser()


def concat(expr, **names):
    """Evaluate expr; return the length of the resulting list or 'ParserError'."""
    snapshot = {k: len(v) for k, v in names.items()}
    try:
        res = parser.eval(expr, names=names)
    except ParserError:
        res = 'ParserError'
    else:
        res = len(res)
    # concatenation must never touch the host's operands
    assert {k: len(v) for k, v in names.items()} == snapshot, 'host operand was modified'
    return res


# plain two-operand concatenation: capped (holds with and without the change)
assert concat('a + b', a=[0] * 6000, b=[1] * 6000) == 'ParserError'
assert concat('a + b', a=[0] * 5000, b=[1] * 5000) == CAP

# chains of three operands: every partial result is within the cap, the total is not
longest = 4000
got = concat('a + a + a', a=[0] * longest)
assert got == 'ParserError', f'a + a + a built a list of {got} elements (cap {CAP}, longest host list {longest})'

# boundary: empty + full + one element
got = concat('e + full + one', e=[], full=[0] * CAP, one=[1])
assert got == 'ParserError', f'e + full + one built a list of {got} elements (cap {CAP})'

# the same through a literal head and an assignment
names = {'a': [0] * 9999}
try:
    parser.eval('r = [1] + a + [2, 3]', names=names)
except ParserError:
    pass
assert 'r' not in names or len(names['r']) <= CAP, f"r has {len(names['r'])} elements"

print('OK: list concatenation chains respect the cap')
