import sys, os; sys.path.insert(0, os.getcwd())

from decimal import Decimal

import smartquery
from smartquery import SqParser

assert smartquery.__file__.startswith(os.getcwd()), smartquery.__file__

parser = SqParser()

# sanity: ordinary decimal division is what it always was
assert parser.eval('1 / 4') == Decimal('0.25')
assert parser.eval('sum([1, 2]) / len([1, 2])') == Decimal('1.5')

# Python semantics: len() (like index_of(), enumerate() indices, sum([])) yields a Python int,
# and int / int is a binary float -- the reference semantics prescribe exactly that.
program = 'a = [1, 2, 3]\nb = [1]\n"ratio: " + len(b) / len(a)'
expected = 'ratio: ' + str(len([1]) / len([1, 2, 3]))          # 'ratio: 0.3333333333333333'
got = parser.eval(program)
assert got == expected, (got, expected)

value = parser.eval('len([1, 2]) / len([1])')
assert type(value) is float and value == 2.0, (type(value), value)
assert parser.eval('"" + len([1, 2]) / len([1])') == '2.0'

# the same through the statement form, checked on the host names left behind
names = {}
assert parser.eval('n = len([1])\nn /= len([1, 2, 3])\nn', names=names) == 1 / 3
assert type(names['n']) is float and names['n'] == 1 / 3, names

print('ok')
