"""C02 harnesses: programs only ever hold plain data, the builtins and their own lambdas; no I/O (CrossHair's audit
wall is engaged on every explored path: file/socket/process/import/exec events raise)."""
import types
from decimal import Decimal as RealDecimal
from typing import List

from sqv import hlib
from sqv.nodes import build, mkstate, Stub
from smartquery import functions, ast_ops
from smartquery.functions import FUNCTIONS
from smartquery.ast_ops import LambdaOp, NameOp, ValueOp
from sqv.api import run_eval, prewarm
from sqv.randstub import RandStub
from sqv.harness import c13

_L = LambdaOp([NameOp('v')], ValueOp(1)).eval(mkstate(0, 100))
LAMBDA_CODE = _L.__code__
BUILTINS = None


def is_plain(v, depth=0):
    global BUILTINS
    if BUILTINS is None:
        BUILTINS = list(FUNCTIONS.values())
    if depth > 8:
        return False
    if v is None or isinstance(v, (bool, int, float, str, RealDecimal)):
        return type(v) in (type(None), bool, int, float, str, RealDecimal) or isinstance(v, RealDecimal) or _symbolic(v)
    if isinstance(v, (list, tuple)):
        return type(v) in (list, tuple) and all(is_plain(x, depth + 1) for x in v) if not _symbolic(v) else True
    if isinstance(v, dict):
        return all(is_plain(k, depth + 1) and is_plain(x, depth + 1) for k, x in v.items())
    if isinstance(v, slice):
        return is_plain(v.start, depth + 1) and is_plain(v.stop, depth + 1) and is_plain(v.step, depth + 1)
    if any(v is b for b in BUILTINS):
        return True
    if isinstance(v, types.FunctionType) and v.__code__ is LAMBDA_CODE:
        return True
    if getattr(v, '_harness_callable', False):
        return True
    return False


def _symbolic(v):
    return type(v).__module__.startswith('crosshair')


import sys as _sys

_AUDIT = {"on": False, "events": []}
_BAD_PREFIXES = ("open", "os.", "socket.", "subprocess.", "import", "exec", "compile", "shutil.", "urllib.", "ctypes.", "tempfile.",
                 "glob.", "pathlib.", "http.", "ftplib.", "smtplib.", "webbrowser.", "winreg.", "mmap.", "fcntl.", "pty.", "signal.")


_TRANSPARENT = ('realizer', 'with_realized_args', 'call_with_realized_args')


def _hook(event, args):
    if _AUDIT["on"] and event.startswith(_BAD_PREFIXES):
        # attribute the event: walking outwards from where it was raised, a smartquery frame must come before any frame
        # of the analysis machinery (CrossHair's tracer imports / compiles things of its own while it runs)
        f = _sys._getframe(1)
        mine = False
        while f is not None:
            fn = f.f_code.co_filename
            if '/crosshair/' in fn and (f.f_code.co_name in _TRANSPARENT or fn.endswith('/libimpl/codecslib.py')):
                f = f.f_back          # a pass-through wrapper around the real C function: the caller decides
                continue
            if '/crosshair/' in fn or '/z3/' in fn or fn.endswith('/sqv/hlib.py'):
                break
            if '/smartquery/' in fn:
                mine = True
                break
            f = f.f_back
        if mine:
            _AUDIT["events"].append(event + ":" + ",".join(str(a)[:60] for a in args[:2]))


_sys.addaudithook(_hook)

SPY_SEEN = []


def _spy(*args):
    """a program lambda stand-in that records every non-plain object it is handed"""
    for a in args:
        if not is_plain(a):
            SPY_SEEN.append(type(a).__name__)
    return 'r'


_spy._harness_callable = True

EXTRA_KINDS = {
    'P': lambda a: _spy,
    'O': lambda a: 'cp866',
    'y': lambda a: {},          # a container the program owns, in a surplus argument position
    'z': lambda a: [],
    'T': lambda a: (3, 'a'),
    'A': lambda a: '__class__',
    'G': lambda a: '{0.__class__.__mro__}',
    'C': lambda a: FUNCTIONS['len'],
    'Y': lambda a: _L,
}
EXTRA_SHAPES = {
    'reversed': ['T'],
    'sorted': ['T', 'LC', 'LY', 'LP', 'DP', 'NP'],
    'len': ['T'],
    'list': ['T'],
    'enumerate': ['T'],
    'sum': ['T'],
    'min': ['T'],
    'max': ['T'],
    'map': ['LC', 'LY', 'TY', 'LP', 'DP', 'SP', 'NP'],
    'filter': ['LY', 'LC', 'LP', 'NP'],
    'reduce': ['LY', 'LP', 'NP'],
    'get': ['DA', 'DG', 'DAC'],
    '__getitem__': ['DA', 'TZ', 'LA'],
    'str': ['A', 'C', 'Y', 'T'],
    'pretty': ['C', 'A'],
    'replace': ['GAA', 'SSP', 'SSPZ', 'SSPZS', 'SSSZS'],
    'match': ['SSP', 'SSS'],
    'match_all': ['SSS', 'SPS'],
    'split': ['GA', 'SSZ', 'SSZP'],
    'join': ['T', 'lG', 'lSP'],
    'dict': ['N'],
    'index_of': ['TZ'],
    'startswith': ['GA'],
    'lower': ['A'],
    'upper': ['G'],
    'strip': ['GA'],
    'int': ['A'],
    'float': ['A'],
    'keys': ['D'],
    'items': ['D'],
    'values': ['D'],
    'rand': ['T'],
    'shuffle': ['T'],
}


def _args(shape, a, b, c, n, flag):
    base = [ch for ch in shape]
    out = []
    i = 0
    while i < len(shape):
        ch = shape[i]
        if ch in EXTRA_KINDS:
            out.append(EXTRA_KINDS[ch](a))
            i += 1
        elif ch == 'F':
            out.extend(c13._args(shape[i:i + 2], a, b, c, n, flag))
            i += 2
        else:
            out.extend(c13._args(ch, a, b, c, n, flag))
            i += 1
    for x in out:
        if isinstance(x, types.FunctionType) and x is not _L and not any(x is f for f in FUNCTIONS.values()):
            x._harness_callable = True
    return out


def closure_step(a: int, b: int, c: int, n: int, flag: bool, d1: int, d2: int, d3: int) -> None:
    """
    pre: 0 <= n <= 5
    post: True
    """
    hlib.enter(locals())
    name, shape = hlib.PARAM["fn"], hlib.PARAM["shape"]
    hlib.assume(hlib.deep() or n <= 3)
    n = hlib.concrete(n, 0, 5)
    args = _args(shape, a, b, c, n, flag)
    saved = functions.random
    functions.random = RandStub([d1, d2, d3], 0.5)
    res, raised = None, None
    del SPY_SEEN[:]
    uses_regex = name in ('match', 'match_groups', 'match_all', 'replace', 'split') and 'P' in shape or name.startswith('match')
    _AUDIT["events"] = []
    _AUDIT["on"] = True
    try:
        try:
            if uses_regex:
                with hlib.native():           # the regex C engine cannot run under the tracer; these shapes are concrete
                    res = FUNCTIONS[name](*args)
            else:
                res = FUNCTIONS[name](*args)
        except Exception as e:
            raised = e
    finally:
        _AUDIT["on"] = False
        functions.random = saved
    assert not _AUDIT["events"], "builtin %s performed I/O-like activity (import / open / exec ...): %s" % (name, _AUDIT["events"][:2])
    assert not SPY_SEEN, "builtin %s handed a program lambda a non-plain object (%s)" % (name, SPY_SEEN[:1])
    if raised is None:
        assert is_plain(res), "builtin %s returned something that is not plain data / a builtin / a lambda: %s" % (name, type(res).__name__)
    for x in args:
        assert is_plain(x), "builtin %s left a non-plain object inside one of its arguments" % name
    hlib.done()


NAMES = ['x', '%x.__class__%', '%f.__globals__%', '%x.real%', '__class__', '%x%']


def node_step(nch: int, r0: int, r1: int, ni: int) -> None:
    """
    pre: 0 <= nch <= 2 and 0 <= ni < 6
    post: True
    """
    # plain children in, plain value out, for every node kind; names that look like attribute paths get no special meaning
    hlib.enter(locals())
    kind, op = hlib.PARAM["kind"], hlib.PARAM["op"]
    node, stubs = build(kind, op, [], [3, 4, [3], 'ab'], nch, -1, value=7)
    nm = NAMES[hlib.concrete(ni, 0, 5)]
    if hasattr(node, 'name'):
        node.name = nm
    host = {'x': (lambda *a: len(a)), '%x%': 'abc', 'f': _L, '%f%': _L}
    host['x']._harness_callable = True
    if kind != 'CallOp':
        host['x'] = 5
    st = mkstate(0, 10**6, host=host, functions=dict(FUNCTIONS))
    res, raised = None, None
    try:
        res = node.eval(st)
    except Exception as e:
        raised = e
    if raised is None:
        assert is_plain(res), "node %s produced a value that is not plain data / a builtin / a lambda: %s" % (kind, type(res).__name__)
    for k, v in st.names.scopes[-1].items():
        assert is_plain(v), "node %s stored a non-plain object in names[%r]" % (kind, k)
    hlib.done()


TEMPLATES = [
    "%s.__class__%",
    "s.__class__",
    "get(d, '__class__')",
    "'{0.__class__}' | replace('a', 'b') | upper",
    "f = x => x\n%f.__globals__%",
    "enumerate([s, s])[0] | reversed",
    "items(d) | map(p => reversed(p))",
    "d | map((k, v) => [k, v]) | sorted",
    "[len, str, f] | map(g => g('ab'))",
    "match_groups('ab', '(a)(b)')",
    "match_all('abab', '(a)(b)') | map(p => reversed(p))",
    "sorted(d) | keys",
    "x = values(d)\nx",
    "l[0:1]",
    "str(len) + str(x => x)",
    "pretty(len)",
    "dict(items(d))",
    "dict(enumerate(l))",
]
if isinstance(hlib.PARAM, dict) and "t" in hlib.PARAM:
    prewarm(TEMPLATES[hlib.PARAM["t"]])


def api_plain(a: int, flag: bool) -> None:
    """
    pre: True
    post: True
    """
    hlib.enter(locals())
    text = TEMPLATES[hlib.PARAM["t"]]
    names = {'s': 'abc', '%s%': 'abc', 'd': {'p': a, 'q': [a]}, 'l': [a, 'x'], 'f': _L}
    if 'match' in text:
        with hlib.native():          # the regex C engine cannot run under the tracer; these templates are concrete
            out = run_eval(text, names, 500)
    else:
        out = run_eval(text, names, 500)
    if out[0] == 'ok':
        assert is_plain(out[1]), "program %r obtained a value that is not plain data / a builtin / a lambda: %s" % (text, type(out[1]).__name__)
    for k, v in names.items():
        assert is_plain(v), "program %r stored a non-plain object in names[%r]" % (text, k)
    hlib.done()


def builtin_on_builtin(j: int, shape: int) -> None:
    """
    pre: 0 <= j < 60 and 0 <= shape <= 4
    post: True
    """
    # the builtins themselves are values a program can name: every builtin applied to every builtin (as the first
    # argument, alone or with an index / key / a second builtin) yields plain data, a builtin, a lambda, or an Exception
    hlib.enter(locals())
    name = hlib.PARAM["fn"]
    vals = list(FUNCTIONS.values())
    j, shape = hlib.concrete(j, 0, 59), hlib.concrete(shape, 0, 4)
    hlib.assume(j < len(vals))
    g = vals[j]
    args = [(g,), (g, 1), (g, 'a'), (g, g), ([g], 0)][shape]
    res, raised = None, None
    with hlib.native():
        saved = functions.random
        functions.random = RandStub([0, 0, 0], 0.5)
        try:
            try:
                res = FUNCTIONS[name](*args)
            except Exception as e:
                raised = e
        finally:
            functions.random = saved
        ok = raised is not None or is_plain(res)
    assert ok, "builtin %s applied to the builtin %r returned a %s, which is not plain data / a builtin / a lambda" % (
        name, list(FUNCTIONS)[j], type(res).__name__)
    hlib.done()


IO_TEMPLATES = [
    "len(zero)", "split(one, one)", "[one] - one", "l | map(v => v / zero)", "int('x')", "u", "1 +", "str(l) + pretty(d)",
    "match('ab', '(a')", "sorted([one, 's'])", "d['nope']", "x = [1]\nx[5] = 2", "'a' * 2", "one ** 's'", "rand(one, zero)",
    "l | reduce((p, q) => p + q)", "round(one, 's')", "%a.b.c%", "f = x => f(x)\nf(1)",
    # unusual but legal inputs (truncating index casts, odd key spellings, deprecated-looking forms)
    "l[3 / 2]", "l[0.5] = 1\nl", "del l[1.5]\nl", "l[one / 2:]", "d[1.50] = 2\nd[1.5]", "sum(d)", "'p' in d and d['p']",
    "round(2.675, 2) + round(0 - 0.5)", "10 ** 400 * 10 ** 400", "int('12') + float('1.5')", "str(None) + 'x'", "l | sorted(v => 0 - v, 1)",
]
if isinstance(hlib.PARAM, dict) and "io" in hlib.PARAM:
    pass


def api_no_io(a: int, twice: bool) -> None:
    """
    pre: True
    post: True
    """
    # no file, process, network, import or dynamic-code activity while a program is parsed and evaluated -- including
    # on every ERROR path (audit events recorded by a hook armed only around the call; bodies run natively)
    hlib.enter(locals())
    text = IO_TEMPLATES[hlib.PARAM["io"]]
    from sqv.api import PARSER
    with hlib.native():
        names = {'zero': 0, 'one': 1, 'l': [1, 2], 'd': {'p': 1}}
        # warm-up run of a harmless program so that first-use imports of the interpreter itself are not attributed
        try:
            PARSER.eval("1 + 1", {})
        except Exception:
            pass
        _AUDIT["events"] = []
        _AUDIT["on"] = True
        try:
            for _ in range(2 if twice else 1):
                try:
                    PARSER.eval(text, dict(names), max_ops_evaluated=60)
                except Exception:
                    pass
        finally:
            _AUDIT["on"] = False
        events = list(_AUDIT["events"])
    assert not events, "evaluating %r performed I/O-like activity: %s" % (text, events[:3])
    hlib.done()
