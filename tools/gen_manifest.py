#!/usr/bin/env python3
"""Regenerates MANIFEST.json from the table below (kept here so the manifest stays consistent)."""
import json, os
HERE = os.path.dirname(os.path.dirname(os.path.abspath(__file__)))

def C(text, note, technique, ref, engine="XH"):
    return dict(text="Bounded symbolic checking (solver verdict over all values inside the stated bounds; counterexamples replayed "
                     "with plain Python): " + text, note=note, technique=technique, ref=ref, engine=engine)


XH = "symbolic execution of the real Python code with CrossHair (z3)"
CLAIMED = {
 "C01": C("real Op.eval and every node class's eval with stub children from an arbitrary counter k and budget N (unbounded ints); "
          "API templates with symbolic budget/host data against an independent node counter; monotonicity/prefix; cross-eval lambdas.",
          "Structural induction over the syntax tree is assumed (not mechanised); CrossHair's models of int/bool/list; formatting stub "
          "for symbolic ints in messages; list-typed child fields <= 2, closure calls <= 2, host lists <= 3.",
          XH + ": one inductive step per node kind + API templates", "DESIGN §6 C01"),
 "C03": C("the real push/insert/index-assignment/compound-index-assignment on containers whose LENGTH is an unbounded symbolic int; "
          "growth contract of every other list/dict-producing route (concatenation with symbolic lengths, the rest non-growing at sizes <= 3).",
          "dict contents abstracted by a dict subclass with symbolic __len__; concatenation operands abstracted by list/str subclasses with "
          "symbolic length (replayed on real containers); iteration routes bounded to length <= 3.",
          XH + ": container length as a symbolic integer", "DESIGN §6 C03"),
 "C04": C("routing of *, **, *= over all 36 pairs of host-suppliable operand kinds with Decimal replaced by a recording stub; LIA magnitude "
          "lemmas for native int paths; decimal context facts.",
          "Digits of Decimal results are libmpdec's (decimal module contract: context operations round to <= 28 digits); floats only at dispatch level.",
          XH + " with a Decimal recording stub + LIA lemmas", "DESIGN §6 C04"),
 "C09": C("every node class's real eval with logging stub children (truth values and the failing child symbolic) and 17 templates through "
          "SqParser.eval with host probes.",
          "Structural induction over the tree; child fields <= 2 elements; templates fixed.",
          XH + ": evaluation-order log per node kind", "DESIGN §6 C09"),
 "C10": C("real ScopedDict over arbitrary stacks (<= 3 scopes x 2 names, presence symbolic), real LambdaOp closure with a re-entrant / raising "
          "body, scoping templates through SqParser.eval with symbolic host bindings.",
          "Stack depth <= 3, re-entrancy <= 2; deeper stacks not proved.",
          XH, "DESIGN §6 C10"),
 "C12": C("routing of every assignment form with copy.deepcopy replaced by a tagging stub, and effect templates with the real deepcopy on "
          "nested containers with symbolic leaves and symbolic mutation sites (program side and host side).",
          "copy.deepcopy's contract; shapes <= 2x2.",
          XH + " with a deepcopy tagging stub", "DESIGN §6 C12"),
 "C15": C("the real grammar actions with and without trailing commas / in the three call spellings on argument lists of symbolic length.",
          "Action level only so far (token- and text-level halves are added by the LRC/LXC engines when present in evidence).",
          XH + " over grammar actions", "DESIGN §6 C15"),
 "C16": C("runtime failure templates through SqParser.eval with symbolic keys/indices/budget; p_error for an arbitrary token or None; t_error; "
          "reserved-word action; name-reading node kinds on an unbound name.",
          "strings <= 3 chars; which inputs reach p_error/t_error is the LRC/LXC half.",
          XH, "DESIGN §6 C16"),
 "C19": C("real _rand/_shuffle with `random` replaced by a contract stub whose draws are symbolic.",
          "random's documented ranges; Decimal constructor exact (recording stub); lists <= 4.",
          XH + " with nondeterministic contract stubs for random", "DESIGN §6 C19"),
 "C20": C("every lexer rule function from an arbitrary (line, bracket depth) state satisfying the line invariant; p_error's message for "
          "distinct token/lexer lines.",
          "matched texts from a pool filtered by each rule's regex; formatted line numbers bounded 1..5.",
          XH + ": one inductive step of the lexer line invariant", "DESIGN §6 C20"),
}
CLAIMED.update({
 "C02": C("closure of plain data under every entry of the real function table (enumerated at run time, compared with the anchored set) and "
          "under every node kind, attribute-/format-like templates through SqParser.eval; every explored path runs behind CrossHair's audit wall.",
          "Argument shapes from a table (lists <= 3); C builtins as CrossHair models them; regex builtins on concrete strings only; structural induction.",
          XH + ": closure step per builtin (incl. builtins applied to builtins, spy lambdas) and per node kind; audit wall plus an audit hook on error paths for I/O", "DESIGN §6 C02, §11.7"),
 "C05": C("REDUCED SCOPE - with the regex module replaced by a recording stub, every path of match/match_groups/match_all enters the engine "
          "only with timeout in [0, 0.1] and at most twice; every re/regex module and precompiled pattern reachable from functions.py is stubbed, "
          "clock readings are arbitrary non-decreasing instants.",
          "The timing claim itself rests on the regex module honouring timeout=; pattern compilation is not covered.",
          XH + " with a recording stub for the regex module", "DESIGN §6 C05"),
 "C07": C("differential symbolic execution of the real evaluator against spec/refsem.py (written from the property text): per operator over "
          "operand-kind pairs, per deterministic builtin over argument shapes, per template against a reference interpreter of the same tree "
          "(value, error class, names afterwards, ops charged).",
          "Symbolic arithmetic limited to + - comparisons on ints; Decimal-valued operations on concrete pools; containers <= 3; nesting by induction.",
          XH + ": differential against a reference semantics", "DESIGN §6 C07"),
 "C08": C("REDUCED SCOPE - routing obligations with a Decimal recording stub (literal text reaches the constructor; operators apply the Decimal "
          "operation to the operand objects; numeric builtins never call float) plus a finite differential of the real arithmetic against Fraction.",
          "libmpdec's rounding outside the literal pool is the decimal module's contract.",
          XH + " with a Decimal recording stub; finite pool differential", "DESIGN §6 C08"),
 "C11": C("the real parser's scalar state havoc'ed with unbounded symbolic ints (plus leftover tree/input/stacks), then ONE real "
          "parse/eval/list_names call compared with a fresh parser; real two-call histories validate the havoc domain.",
          "16 concrete texts; state on attributes the harness does not know is only covered by the length-2 histories; cross-call lambdas: C01.",
          XH + ": one call from an arbitrary pre-state", "DESIGN §6 C11"),
 "C13": C("every non-mutator of the real function table (enumerated at run time) on containers with symbolic leaves and host mappings with "
          "__missing__, deep snapshot before/after (return or raise); pipelines through SqParser.eval.",
          "lists <= 3; regex builtins only with container arguments; formatting builtins on concrete elements.",
          XH, "DESIGN §6 C13"),
 "C14": C("one container operation through SqParser.eval from an arbitrary small list/dict against spec/container_model.py; key round trips "
          "across all write/read paths; two-key sequences with functools caches left active.",
          "lists <= 4, dicts <= 3; indices -6..6 and 11 Decimals; key pool of 15; sequences by the no-hidden-state argument.",
          XH + ": one step from an arbitrary container vs a model", "DESIGN §6 C14"),
 "C17": C("every node class's eval leaves the node identical and returns fresh containers; real SqParser with a host cache vs without over a "
          "symbolic schedule of 3 calls, evictions, pre-warming and host mutation of earlier results.",
          "12 texts; whole-cache eviction events; quick tier fixes the third call to repeat the first.",
          XH + ": symbolic call/eviction schedule against an uncached parser", "DESIGN §6 C17"),
 "C18": C("list_names over a symbolic token stream (lexer stubbed) from an arbitrary pre-state; keyword re-typing; name fields every real grammar "
          "action can build; names each node kind and template asks the mapping for.",
          "token streams <= 4; character-level facts need LXC.",
          XH, "DESIGN §6 C18"),
})
LRC = "SMT chart (z3, bit-blast + SAT) of the run of the real LALR tables over a symbolic token string"
CLAIMED["C06"] = C("for ALL token strings up to the bound: acceptance by the real LALR tables == derivability in the published grammar "
                   "(independent copy in spec/grammar_ref.json) with the operator-table filters of the property; the lexer's master regex tokenises "
                   "every text of up to W characters like the published token definitions (LXC); no accepted string groups a parent/child pair against the table; encoder validated "
                   "against the real parser every run.",
                   "Bounds: full alphabet L<=6 (quick) / 8 (thorough), operator slice 7/9, bracket slice 8/10, statement slice 7/9. PLY's driver loop is "
                   "modelled by the chart rules (validated, not executed symbolically); grouping facts the property does not spell out are not demanded.",
                   LRC + " + CFG chart with operator-table filters", "DESIGN §4, §6 C06", engine="LRC")
LXC = "SMT encoding (z3) of the lexer's master regex over symbolic character classes"
for k, extra in (("C15", " Character level (LXC): inserting a blank / a CR before LF changes no earlier raw match, for all texts up to W characters. Text templates: 20 programs x 18 layout rewrites (sites located with the independent tokeniser) on the real lexer+parser (indices enumerated through the solver)."),
                 ("C18", " Character level (LXC): %..% names run to the next %, plain names are maximal, for all texts up to W characters."),
                 ("C20", " Character level (LXC): every line feed is consumed by the NEWLINE rule alone and no other token contains one. Text templates: stray token / truncation at every token boundary under LF, CRLF and ; variants.")):
    CLAIMED[k]["text"] += extra
    CLAIMED[k]["technique"] += "; " + LXC
    CLAIMED[k]["engine"] = CLAIMED[k].get("engine", "XH") + "+LXC"
for k, extra in (("C15", " Token level (LRC): acceptance invariance of trailing commas, redundant parentheses, blank statements and DOT/PIPE over all token strings up to the bound."),
                 ("C16", " Token level (LRC): every token string up to the bound is accepted xor stops at exactly one error configuration handled by p_error(token or None)."),
                 ("C20", " Token level (LRC): the token handed to p_error has no accepted continuation, for all token strings up to the bound.")):
    CLAIMED[k]["text"] += extra
    CLAIMED[k]["engine"] = CLAIMED[k].get("engine", "XH") + "+LRC"
    CLAIMED[k]["technique"] += "; " + LRC
# additions of the later rounds (DESIGN §11.8 - §11.10); the evidence files list every obligation
for k, extra in (
    ("C01", " Also: host callbacks that re-enter eval (nested eval may fail and be swallowed), second evaluation of the same cached tree, reads of recording host rows bounded by the budget (every lambda-body evaluation is an operation whatever its shape)."),
    ("C02", " Also: every builtin with option-like surplus arguments, an audit hook (open / import / exec / socket / subprocess events) armed around each builtin call and around failing and unusual-but-legal programs."),
    ("C03", " Also: every builtin with surplus arguments on a list near the cap, every builtin on two / three real containers, the cap after earlier evaluations over over-long host data."),
    ("C04", " Also: 18 whole programs through lexer + parser + evaluator (parse-time shortcuts), powers of host ints beyond the decimal exponent range."),
    ("C05", " Also: sequences of four calls where the engine refuses or times out in earlier ones; Python lines executed in functions.py around the engine call (sys.monitoring, engine stubbed) bounded by 3000 + 4 * (len(pattern) + len(subject)) for lengths up to 10**5."),
    ("C06", " Text level: 20 programs damaged at every token boundary by 37 stray texts - whatever the real parser accepts must be accepted by an independent tokeniser + Earley recogniser over spec/grammar_ref.json (spec/reflang.py)."),
    ("C07", " Also: operators on the Python ints builtins hand out (result types), equal keys of different scale with the real functools caches, pretty on numbers."),
    ("C08", " Also: comparisons where an operand is the result of an operation, numeric builtins (round incl. negative places, floor, ceil, abs, int, sum, min, max) on literal expressions vs exact rationals."),
    ("C09", " Failing children raise four exception kinds (identity of the raised object compared); membership, dict-literal, multiplication and unresolved-name templates."),
    ("C10", " Also: lambda calls that bind nothing, non-callable bindings in call position, top-level assignments with ast_names."),
    ("C11", " Also: the same text again through both entry points, names mappings kept by the host across evaluations (lambdas returning literals), process-global state (decimal context) after every history."),
    ("C12", " Also: empty containers, self-referential stores, the same statement evaluated twice (with / without parse cache) with host mutation in between."),
    ("C13", " Also: lists of strings / mixed lists in every argument position of every non-mutator; pipelines whose lambdas concatenate and pipelines that keep results in variables."),
    ("C14", " Also: None / empty / false values, equal numbers of different classes (literal Decimal, computed Decimal, host int / bool)."),
    ("C16", " Listed failures MUST fail (also inside lambdas driven by sorted / map / filter / reduce); damaged texts parsed twice by a parser with a cache."),
    ("C17", " Also: pairs of texts (near-duplicates, failing texts with open brackets followed by multi-line texts, very deep texts), every string key left in the host's mapping must behave as a source text, LambdaOp node unchanged by closure calls nesting up to 260 deep."),
    ("C18", " Also: exact listings for identifiers that start / end like keywords, after failed calls on the same parser; listings and lookups with a parse cache after near-duplicate / identical texts."),
    ("C19", " Also: concrete draws on negative / mixed-sign ranges, lists around and beyond the 10000-element cap."),
    ("C20", " The offending token is determined independently (raw lexer tokens recorded under the parse, LR tables driven by a plain loop); the message must show the token as WRITTEN in the source."),
):
    CLAIMED[k]["text"] += extra
NOT_YET = {}
NA = {}

def main():
    props = [json.loads(l) for l in open(os.path.join(HERE, "properties.jsonl"))]
    checks = []
    na = []
    for p in props:
        i = p["id"]
        if i in CLAIMED:
            c = CLAIMED[i]
            checks.append({
                "property_id": i,
                "quick_cmd": f"./check {i} --tier quick",
                "thorough_cmd": f"./check {i} --tier thorough",
                "evidence_file": f"evidence/{i}.json",
                "replay_cmd_template": f"./check {i} --replay {{path}}",
                "engine": c.get("engine", "XH"),
                "level_claimed": {"category": "other", "text": c["text"], "design_ref": c["ref"]},
                "level_note": c["note"],
                "technique": c["technique"],
            })
        else:
            na.append({"property_id": i, "reason": NA.get(i, "check not built yet (work in progress); no claim is made")})
    m = {
        "version": 1,
        "setup_cmd": "./setup.sh",
        "hooks": {
            "guard": "SMARTQUERY_VERIF",
            "enable": "no source hooks: all stubs are installed from the harness side on a scratch snapshot of /repo's working tree",
            "baseline_off_cmd": "cd /repo && /venv/bin/python -m pytest -ra -q -p no:cacheprovider --timeout=900 --continue-on-collection-errors",
            "source_commits": [],
            "add_only": True,
        },
        "engines": [
            {"name": "XH", "path": "sqv/xh_worker.py", "serves_properties": sorted(k for k, v in CLAIMED.items() if "XH" in v.get("engine", "XH")),
             "kind_free_text": "CrossHair 0.0.110 symbolic execution (z3) of the real Python functions from a snapshot of /repo"},
            {"name": "LRC", "path": "sqv/lrc.py", "serves_properties": sorted(k for k, v in CLAIMED.items() if "LRC" in v.get("engine", "XH")),
             "kind_free_text": "z3 chart encoding of the real LALR(1) tables (regenerated from the snapshot) over symbolic token strings"},
            {"name": "LXC", "path": "sqv/lxc.py", "serves_properties": sorted(k for k, v in CLAIMED.items() if "LXC" in v.get("engine", "XH")),
             "kind_free_text": "z3 encoding of the lexer's master regular expression (leftmost-first backtracking unfolded) over symbolic character classes"},
        ],
        "checks": checks,
        "not_applicable": na,
        "notes": "Every check snapshots /repo's working tree, regenerates its encodings from it, and replays counterexamples with plain Python before reporting.",
    }
    json.dump(m, open(os.path.join(HERE, "MANIFEST.json"), "w"), indent=1)

if __name__ == "__main__":
    main()
