import sys, os; sys.path.insert(0, os.getcwd())

import smartquery
from smartquery import SqParser

assert smartquery.__file__.startswith(os.getcwd()), smartquery.__file__

parser = SqParser()

IMPLICIT = {'list', 'dict', '__getitem__', '__setitem__', '__setitem_with_op__', '__delitem__'}


class Names(dict):
    """host mapping that records which names it is asked for"""
    def __init__(self, *a, **kw):
        super().__init__(*a, **kw)
        self.asked = []

    def __contains__(self, k):
        self.asked.append(k)
        return super().__contains__(k)


def check(source, expected_names, names, expected_value):
    got = list(parser.list_names(source))
    assert got == expected_names, (source, got, expected_names)
    host = Names(names)
    value = parser.eval(source, names=host)
    assert value == expected_value, (source, value)
    assert set(host.asked) - IMPLICIT <= set(got), (source, host.asked, got)


# the two-word operator itself
check('x not in items', ['x', 'items'], {'x': 3, 'items': [1, 2]}, True)
check('"a" not   in %some text%', ['%some text%'], {'%some text%': 'abc'}, False)

# unary 'not' followed by an identifier that merely starts with the letters 'in'
check('not index', ['index'], {'index': 0}, True)
check('not in_stock and qty > 0', ['in_stock', 'qty'], {'in_stock': False, 'qty': 2}, True)
check('flag = not int(amount); flag', ['flag', 'int', 'amount', 'flag'], {'amount': '0'}, True)
check('[1, 2, 3] | filter(v => not int(v - 2))', ['filter', 'v', 'int', 'v'], {}, [2])
check('not insert(seen, 0, 5)', ['insert', 'seen'], {'seen': [1]}, True)
print('ok')
