"""Check driver: ./check <PROPERTY> [--tier quick|thorough] [--replay PATH]

Snapshot /repo's working tree, build the obligations of the property from the snapshot, discharge each
with the solver-backed engine it names (CrossHair->z3, or a z3 encoding), replay every counterexample with
plain Python against the snapshot, match against known_findings.json, write evidence, exit 0/1.
"""
import argparse
import concurrent.futures as cf
import hashlib
import importlib
import json
import os
import re
import shutil
import subprocess
import sys
import tempfile
import time

VERIF = os.path.dirname(os.path.dirname(os.path.abspath(__file__)))
REPO = os.environ.get("SQV_REPO", "/repo")
PY = os.path.join(VERIF, ".venv", "bin", "python")
HARNESS_ERROR = 3   # reserved: machinery failure (never 1)


# ----------------------------------------------------------------------------------------------
def make_snapshot():
    d = tempfile.mkdtemp(prefix="sqv-snap-")
    shutil.copytree(REPO, os.path.join(d, "repo"), symlinks=True,
                    ignore=shutil.ignore_patterns(".git", "__pycache__", "*.pyc", "*.egg-info", ".pytest_cache"))
    return d, os.path.join(d, "repo")


def file_hashes(snap, rels):
    out = {}
    for r in rels:
        p = os.path.join(snap, r)
        if os.path.exists(p):
            out[r] = hashlib.sha256(open(p, "rb").read()).hexdigest()[:16]
        else:
            out[r] = "missing"
    return out


def load_known():
    p = os.path.join(VERIF, "known_findings.json")
    if not os.path.exists(p):
        return []
    return json.load(open(p)).get("findings", [])


# ----------------------------------------------------------------------------------------------
class Obligation:
    """One solver obligation.  kind: 'xh' (CrossHair harness fn) | 'z3' (module:function encoded query)."""

    def __init__(self, oid, kind, harness, fn, param=None, timeout=30, bounds="", desc="",
                 api_replay=None, twin_timeout=15, extra=None, search=False):
        self.id = oid
        self.kind = kind
        self.harness = harness
        self.fn = fn
        self.param = param
        self.timeout = timeout
        self.bounds = bounds
        self.desc = desc
        self.api_replay = api_replay
        self.twin_timeout = twin_timeout
        self.extra = extra or {}
        self.search = search       # time-boxed search (bug hunting): "no counterexample within the time box" is its normal outcome


def env_for(snap, mode):
    e = dict(os.environ)
    e["PYTHONPATH"] = snap + os.pathsep + VERIF
    e["PYTHONDONTWRITEBYTECODE"] = "1"
    e["PYTHONHASHSEED"] = "0"
    e["SQV_MODE"] = mode
    e["SQV_SNAPSHOT"] = snap
    return e


def run_worker(ob, ctx, excludes):
    spec = {"snapshot": ctx["snap"], "harness": ob.harness, "fn": ob.fn, "param": ob.param,
            "timeout": ob.timeout, "id": ob.id, "excludes": excludes, "twin_timeout": ob.twin_timeout,
            "extra": ob.extra, "tier": ctx["tier"], "seed": ctx["seed"]}
    fd, path = tempfile.mkstemp(prefix="spec-", suffix=".json", dir=ctx["tmp"])
    with os.fdopen(fd, "w") as f:
        json.dump(spec, f)
    worker = "xh_worker.py" if ob.kind == "xh" else "z3_worker.py"
    wall = ob.timeout * 3 + ob.twin_timeout + 120
    t0 = time.time()
    try:
        p = subprocess.run([PY, os.path.join(VERIF, "sqv", worker), path], capture_output=True, text=True,
                           timeout=wall, env=env_for(ctx["snap"], "crosshair" if ob.kind == "xh" else "z3"),
                           cwd=ctx["tmp"])
    except subprocess.TimeoutExpired:
        return {"verdict": "INCONCLUSIVE", "why": f"worker wall timeout {wall}s", "secs": time.time() - t0}
    for line in reversed(p.stdout.splitlines()):
        if line.startswith("XHRESULT "):
            r = json.loads(line[len("XHRESULT "):])
            r["wall"] = round(time.time() - t0, 2)
            return r
    return {"verdict": "INCONCLUSIVE", "why": "worker crashed: " + (p.stderr or p.stdout)[-800:],
            "secs": time.time() - t0}


def write_replay(ob, ctx, res, n):
    d = os.path.join(VERIF, "replays", ctx["prop"])
    os.makedirs(d, exist_ok=True)
    safe = re.sub(r"[^A-Za-z0-9_.+=-]", lambda m: "%%%02x" % ord(m.group(0)), ob.id)
    path = os.path.join(d, f"{safe}{'' if n == 0 else '.' + str(n)}.json")
    rec = {"property": ctx["prop"], "obligation": ob.id, "kind": ob.kind, "harness": ob.harness, "fn": ob.fn,
           "param": ob.param, "call": res.get("call"), "cex": res.get("cex"), "engine_message": res.get("message"),
           "desc": ob.desc, "extra": ob.extra, "tier": ctx["tier"],
           "how": f"./check {ctx['prop']} --replay {os.path.relpath(path, VERIF)}"}
    with open(path, "w") as f:
        json.dump(rec, f, indent=1, default=str)
    return path


def run_replay(path, snap, tmp):
    """Plain Python (no CrossHair tracing, no solver) against the snapshot.  Returns (reproduced, outcome)."""
    try:
        p = subprocess.run([PY, os.path.join(VERIF, "sqv", "replay.py"), path], capture_output=True, text=True,
                           timeout=300, env=env_for(snap, "replay"), cwd=tmp)
    except subprocess.TimeoutExpired:
        return False, "replay timeout"
    for line in reversed(p.stdout.splitlines()):
        if line.startswith("REPLAY "):
            r = json.loads(line[len("REPLAY "):])
            return r["reproduced"], r["outcome"]
    return False, "replay crashed: " + (p.stderr or p.stdout)[-500:]


def _call_exclusion(call):
    """'f(1, [2], x=True)' -> 'CALL:([1, [2]], {"x": True})' (None when the call text cannot be read back)"""
    import ast
    if not call:
        return None
    try:
        node = ast.parse(call.strip(), mode="eval").body
        if not isinstance(node, ast.Call):
            return None
        pos = [ast.literal_eval(a) for a in node.args]
        kw = {k.arg: ast.literal_eval(k.value) for k in node.keywords}
        return "CALL:" + repr((pos, kw))
    except Exception:
        return None


def discharge(ob, ctx):
    """Run an obligation; on a counterexample replay it, match known findings, re-ask with exclusions."""
    known = [k for k in ctx["known"] if k.get("property") == ctx["prop"] and k.get("status", "open") == "open"
             and re.fullmatch(k.get("obligation", ".*"), ob.id)]
    excludes = []
    rounds = []
    out = {"id": ob.id, "kind": ob.kind, "desc": ob.desc, "bounds": ob.bounds, "param": ob.param,
           "known_findings": [], "violations": []}
    for n in range(8):
        res = run_worker(ob, ctx, excludes)
        rounds.append({k: res.get(k) for k in ("verdict", "state", "twin", "secs", "twin_secs", "why", "call",
                                               "message", "wall", "stats") if res.get(k) is not None})
        if res["verdict"] != "CEX":
            out["verdict"] = res["verdict"]
            out["why"] = res.get("why")
            if ob.search and res["verdict"] == "INCONCLUSIVE" and res.get("why") == "cannot_confirm":
                out["verdict"] = "SEARCHED"
                out["why"] = "time-boxed search: no counterexample within %ss (not a proof)" % ob.timeout
            break
        path = write_replay(ob, ctx, res, n)
        ok, outcome = run_replay(path, ctx["snap"], ctx["tmp"])
        rounds[-1]["replay"] = {"path": os.path.relpath(path, VERIF), "reproduced": ok, "outcome": outcome[:400]}
        if not ok:
            try:
                os.remove(path)
            except OSError:
                pass
            # the engine's model was wrong for THIS input: exclude exactly that argument tuple and ask again (a few times)
            ex = _call_exclusion(res.get("call")) if ob.kind == "xh" else None
            if ex and ex not in excludes and sum(1 for e in excludes if e.startswith("CALL:")) < 4:
                excludes.append(ex)
                continue
            out["verdict"] = "INCONCLUSIVE"
            out["why"] = "counterexample did not reproduce under plain Python (engine model wrong here): " + outcome[:200]
            break
        sig = f"{ob.id}|{outcome}"
        hit = None
        for k in known:
            if re.search(k["signature"], sig, re.S):
                hit = k
                break
        if hit is None:
            out["verdict"] = "REFUTED"
            out["violations"].append({"replay": path, "outcome": outcome[:400], "call": res.get("call")})
            break
        out["known_findings"].append({"what": hit["what"], "replay": os.path.relpath(path, VERIF),
                                      "outcome": outcome[:300]})
        if hit.get("exclude") and hit["exclude"] not in excludes:
            excludes.append(hit["exclude"])
            continue
        # whole obligation is the finding (no finer region expressible)
        out["verdict"] = "KNOWN"
        break
    else:
        out["verdict"] = "INCONCLUSIVE"
        out["why"] = "too many exclusion rounds"
    if out["known_findings"] and out["verdict"] == "PROVED":
        out["verdict"] = "PROVED_MODULO_KNOWN"
    out["rounds"] = rounds
    out["secs"] = round(sum((r.get("secs") or 0) + (r.get("twin_secs") or 0) for r in rounds), 2)
    return out


# ----------------------------------------------------------------------------------------------
def main(argv=None):
    ap = argparse.ArgumentParser()
    ap.add_argument("prop")
    ap.add_argument("--tier", default=os.environ.get("VERIF_TIER") or "quick")
    ap.add_argument("--replay")
    ap.add_argument("--only", help="regex on obligation ids (debugging)")
    ap.add_argument("--jobs", type=int, default=int(os.environ.get("SQV_JOBS", "16")))
    ap.add_argument("--keep", action="store_true")
    ap.add_argument("--no-evidence", action="store_true")
    a = ap.parse_args(argv)
    prop = a.prop.upper()
    tier = a.tier if a.tier in ("quick", "thorough") else "quick"
    seed = int(os.environ.get("VERIF_SEED", "0") or 0)
    t0 = time.time()
    tmp, snap = make_snapshot()
    try:
        if a.replay:
            path = a.replay if os.path.isabs(a.replay) else os.path.join(VERIF, a.replay)
            ok, outcome = run_replay(path, snap, tmp)
            print(("REPRODUCED " if ok else "NOT-REPRODUCED ") + outcome)
            if ok:
                print(f"VIOLATION property={prop} replay={path}")
            return 1 if ok else 0
        sys.path.insert(0, snap)
        sys.path.insert(0, VERIF)
        os.environ["SQV_SNAPSHOT"] = snap
        os.environ["PYTHONDONTWRITEBYTECODE"] = "1"
        sys.dont_write_bytecode = True
        mod = importlib.import_module("sqv.props." + prop.lower())
        ctx = {"snap": snap, "tmp": tmp, "prop": prop, "tier": tier, "seed": seed, "known": load_known()}
        plan = mod.plan(ctx)
        obligations = plan["obligations"]
        seen_ids = set()
        uniq = []
        for o in obligations:          # obligation ids are file names and known-finding keys: keep the first of any duplicates
            if o.id not in seen_ids:
                seen_ids.add(o.id)
                uniq.append(o)
        obligations = uniq
        if a.only:
            obligations = [o for o in obligations if re.search(a.only, o.id)]
        # stale replays of this property are removed: replays/ only holds what this run produced
        rd = os.path.join(VERIF, "replays", prop)
        if os.path.isdir(rd) and not a.only:
            shutil.rmtree(rd)
        pre = plan.get("precheck")
        pre_out = pre(ctx) if pre else {}
        results = []
        aborts = dict(pre_out.get("abort_by_harness") or {})
        if pre_out.get("abort") and not aborts:
            aborts = {"*": pre_out["abort"]}
        if aborts:
            # the encoder disagrees with the real code on concrete inputs (or cannot represent it): nothing it says is believed
            hit = [o for o in obligations if o.kind == "z3" and (o.harness in aborts or "*" in aborts)]
            for ob in hit:
                results.append({"id": ob.id, "kind": ob.kind, "desc": ob.desc, "bounds": ob.bounds, "param": ob.param,
                                "known_findings": [], "violations": [], "verdict": "INCONCLUSIVE",
                                "why": "encoder validation failed: " + str(aborts.get(ob.harness) or aborts.get("*"))[:300], "rounds": [], "secs": 0})
            obligations = [o for o in obligations if o not in hit]
        with cf.ThreadPoolExecutor(max_workers=a.jobs) as ex:
            futs = {ex.submit(discharge, ob, ctx): ob for ob in obligations}
            for f in cf.as_completed(futs):
                r = f.result()
                results.append(r)
                if os.environ.get("SQV_VERBOSE"):
                    print(f"  [{r['verdict']:>12}] {r['id']} ({r['secs']}s) {r.get('why') or ''}", flush=True)
        results.sort(key=lambda r: r["id"])
        violations = [v for r in results for v in r["violations"]]
        knowns = [(r["id"], k) for r in results for k in r["known_findings"]]
        uncovered = plan.get("uncovered", [])
        for u in (pre_out.get("uncovered") or []):
            uncovered.append(u)
        proved = sum(1 for r in results if r["verdict"] in ("PROVED", "PROVED_MODULO_KNOWN"))
        inconc = [r for r in results if r["verdict"] == "INCONCLUSIVE"]
        wall = time.time() - t0
        ev = {
            "property_id": prop, "tier": tier, "seed": seed, "level": "other",
            "coverage": {
                "explanation": plan["explanation"],
                "evaluations": len(results),
                "distinct_nontrivial": sum(1 for r in results if any(
                    (rr.get("twin") in ("post_fail", "exec_err", "sat")) for rr in r["rounds"])),
                "rule": "one evaluation = one solver obligation (CrossHair condition or z3 query) over the real code in "
                        "the snapshot; non-trivial = its reachability twin was refuted / satisfiable (the assertion is "
                        "reached on some path)",
                "obligations": len(results),
                "discharged": proved,
                "inconclusive": [{"id": r["id"], "why": r.get("why")} for r in inconc],
                "time_boxed_searches_without_counterexample": [r["id"] for r in results if r["verdict"] == "SEARCHED"],
                "known_findings": [{"obligation": i, **k} for i, k in knowns],
                "uncovered": uncovered,
                "functions_encoded": plan.get("functions", []),
                "source_hashes": file_hashes(snap, plan.get("files", [])),
                "bounds": plan.get("bounds", ""),
                "outside_claim": plan.get("outside", ""),
                "stubs": plan.get("stubs", []),
                "solver_seconds": round(sum(r["secs"] for r in results), 2),
                "precheck": pre_out,
                "per_obligation": [{k: r.get(k) for k in ("id", "verdict", "secs", "bounds", "desc", "why")}
                                   for r in results],
                "samples": [{"id": r["id"], "param": r["param"], "rounds": r["rounds"][:2]} for r in results[:6]],
                "trusted_base": plan.get("trusted", []),
                "checker_cmd": f"./check {prop} --tier {tier}",
            },
            "assumptions": plan.get("assumptions", []),
            "wall_s": round(wall, 2),
            "violations": len(violations),
        }
        if not a.no_evidence and not a.only:
            os.makedirs(os.path.join(VERIF, "evidence"), exist_ok=True)
            with open(os.path.join(VERIF, "evidence", prop + ".json"), "w") as f:
                json.dump(ev, f, indent=1, default=str)
        print(f"{prop} tier={tier}: obligations={len(results)} proved={proved} inconclusive={len(inconc)} "
              f"known-findings={len(knowns)} violations={len(violations)} wall={wall:.1f}s")
        for r in inconc:
            print(f"INCONCLUSIVE obligation={r['id']} {r.get('why')}")
        seen = set()
        for i, k in knowns:
            if (k["what"]) not in seen:
                seen.add(k["what"])
                print(f"KNOWN-FINDING: property={prop} {k['what']} [obligation {i}]")
        for v in violations:
            print(f"VIOLATION property={prop} replay={v['replay']}")
            print(f"  outcome: {v['outcome']}")
        return 1 if violations else 0
    finally:
        if not a.keep:
            shutil.rmtree(tmp, ignore_errors=True)


if __name__ == "__main__":
    try:
        rc = main()
    except SystemExit:
        raise
    except BaseException:
        import traceback
        traceback.print_exc()
        rc = HARNESS_ERROR
    sys.exit(rc)
