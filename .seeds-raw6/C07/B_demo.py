import sys, os; sys.path.insert(0, os.getcwd())

from decimal import Decimal

import smartquery
from smartquery import SqParser

assert smartquery.__file__.startswith(os.getcwd()), smartquery.__file__

parser = SqParser()

# sanity: the documented behaviour of pretty() on ordinary numbers
assert parser.eval('1234 | pretty') == '1234'
assert parser.eval('-1234 | pretty') == '-1234'
assert parser.eval('12345 | pretty') == '12 345'
assert parser.eval('-123456789 | pretty') == '-123 456 789'
assert parser.eval('pretty(0.0000)') == '0.0 000'

# Exact-decimal arithmetic keeps the sign of a zero: rounding a tiny negative amount, or
# multiplying a zero amount by a negative factor, gives a negative zero whose text is '-0.00...'.
# pretty() groups the text after the sign and puts the sign back in front.
assert str(parser.eval('round(-0.004, 2)')) == '-0.00'
got = parser.eval('round(-0.004, 2) | pretty')
assert got == '-0.00', got                      # fewer than 5 characters after the sign: unchanged

program = 'price = 0.0000\nqty = -3\ntotal = price * qty\n"Total: " + pretty(total)'
names = {}
got = parser.eval(program, names=names)
assert str(names['total']) == '-0.0000', names
assert got == 'Total: -0.0 000', got

assert parser.eval('[2.50 * 0.00, -2.50 * 0.00] | map(pretty)') == ['0.0 000', '-0.0 000']
assert parser.eval('pretty(0.0000 * -1, ",")') == '-0.0,000'

print('ok')
