from sqv.driver import Obligation


def plan(ctx):
    T = 40 if ctx["tier"] == "quick" else 240
    from sqv.harness import c19 as h
    obs = [
        Obligation("rand.unit", "xh", "c19", "rand_unit", timeout=T, bounds="draw: any float in [0,1)", desc="rand() in [0, 1)"),
        Obligation("rand.ints", "xh", "c19", "rand_ints", timeout=T, bounds="host ints a <= b unbounded; draw any int in [a, b]",
                   desc="rand(a, b) integer n with a <= n <= b (incl. a == b, negative, large)"),
        Obligation("rand.ints_concrete", "xh", "c19", "rand_ints_concrete", timeout=T * 2,
                   bounds="bounds from 8 host ints (negative, 0, > 2**31, < -2**33); random() from 6 values up to 1 - 2**-53; randint/randrange draws within 2 of either end",
                   desc="rand(a, b) in [a, b] for concrete draws of every generator function"),
        Obligation("rand.decimals", "xh", "c19", "rand_decimals", timeout=T,
                   bounds="bounds from a pool of 11 integer-valued Decimals (incl. 1E+1, 2.0, 20 and 29 digits, negative); draw within 2 of either end (concrete ints, so Decimal arithmetic downstream is the real one)",
                   desc="rand(a, b) with integer-valued Decimal bounds (what literals produce)"),
        Obligation("rand.choice", "xh", "c19", "rand_choice", timeout=T, bounds="list 1..4 symbolic ints", desc="rand(list) returns an element"),
        Obligation("shuffle.equal_elements", "xh", "c19", "shuffle_perm", param={"eq_all": True}, timeout=T * 2,
                   bounds="list of 0..4 objects that all compare EQUAL but are distinguishable (like 1, True, Decimal('1.0'))",
                   desc="shuffle is a permutation of the argument's OBJECTS even when they compare equal"),
        Obligation("rand.api_big_bounds", "xh", "c19", "api_rand_big", timeout=T * 2, bounds="6 pairs of host int bounds of 20..31 digits (both signs, a == b); draw at either end; three call spellings through SqParser.eval (finite domain, native)",
                   desc="rand(a, b) on host-supplied big bounds, through name lookup: an integer in [a, b] or an error"),
        Obligation("shuffle.long", "xh", "c19", "shuffle_long", timeout=T * 2, bounds="host list of 9999 / 10000 / 10001 / 20000 ints (index symbolic), first draws 0..3",
                   desc="shuffle of a list around / beyond the element cap: argument unchanged, result a permutation (or an error)"),
        Obligation("shuffle", "xh", "c19", "shuffle_perm", timeout=T * 2, bounds="list of 0..4 distinct objects (length symbolic); Fisher-Yates draws symbolic",
                   desc="shuffle returns a new list that is a permutation; argument unchanged"),
    ]
    for i, text in enumerate(h.API):
        obs.append(Obligation(f"api.t{i}", "xh", "c19", "api_rand", param={"t": i}, timeout=T * 2,
                              bounds="host ints unbounded, list 1..3", desc=f"SqParser.eval({text!r})"))
    return {
        "obligations": obs,
        "explanation": "CrossHair (z3) symbolic execution of the real _rand/_shuffle (through the FUNCTIONS table and SqParser.eval) with "
                       "`random` replaced by a stub whose draws are symbolic values constrained only by the documented contract of "
                       "random()/randint()/choice()/shuffle().",
        "functions": ["smartquery.functions._rand", "smartquery.functions._shuffle"],
        "files": ["smartquery/functions.py"],
        "bounds": "ints unbounded; lists <= 4; Decimal bounds from a concrete pool of 8",
        "outside": "the quality of the random module itself",
        "stubs": ["random contract stub (randint requires operator.index-able bounds exactly like the real one)", "Decimal recording stub"],
        "assumptions": ["random's documented ranges", "Decimal constructor is exact"],
        "trusted": ["CrossHair 0.0.110", "z3"],
    }
