from sqv.driver import Obligation
from sqv import nodes


def plan(ctx):
    T = 30 if ctx["tier"] == "quick" else 180
    obs = [Obligation("O1.base_step", "xh", "c01", "base_step", timeout=T,
                      bounds="k>=0, N>=1 unbounded ints",
                      desc="Op.eval: counter+1; ops-limit (a ParserError) iff k+1>=N")]
    uncovered = []
    for p in nodes.kind_params():
        oid = f"O2.step.{p['kind']}" + (f".{p['op']}" if p['op'] else "")
        try:
            nodes.build(p["kind"], p["op"], [], [0, 0, 0, 0], 1)
        except nodes.Uncovered as e:
            uncovered.append(f"node kind not constructible by the generic builder: {e}")
            continue
        obs.append(Obligation(oid, "xh", "c01", "node_step", param=p, timeout=T,
                              bounds="k,N unbounded; list-typed child fields 0..2; child truth values symbolic; "
                                     "one child may raise; closure called 0..2 times",
                              desc="real node, stub children: charged first, counter == k+1+child evals, "
                                   "ops-limit iff counter reaches N, nothing happens when k+1>=N"))
    return {
        "obligations": obs,
        "uncovered": uncovered,
        "explanation": "CrossHair (z3) symbolic execution of the real Op.eval and of every node class's eval with stub "
                       "children; budget N and counter k are unbounded symbolic ints.",
        "functions": ["smartquery.ast_ops.Op.eval"] + ["smartquery.ast_ops.%s.eval" % k for k in nodes.node_kinds()],
        "files": ["smartquery/ast_ops.py", "smartquery/vm_state.py", "smartquery/sq_parser.py", "smartquery/scoped_dict.py"],
        "bounds": "k, N unbounded (LIA); children per list field <= 2; closure calls <= 2",
        "outside": "programs deeper than one node are covered by structural induction over the tree (not mechanised)",
        "stubs": ["stub child nodes (charge through the real Op.eval)", "number formatting placeholder"],
        "assumptions": ["structural induction over syntax trees", "CrossHair's models of int/bool/list/dict"],
        "trusted": ["CrossHair 0.0.110", "z3"],
    }
