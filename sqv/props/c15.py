from sqv.driver import Obligation


def plan(ctx):
    T = 40 if ctx["tier"] == "quick" else 240
    obs = []
    for form in ('call', 'DOT', 'PIPE', 'list', 'dict'):
        obs.append(Obligation(f"action.trailing_comma.{form}", "xh", "c15", "trailing_comma_call", param={"form": form}, timeout=T,
                              bounds="argument/element list length 1..4 (symbolic), name <= 2 chars",
                              desc="the production with and without the trailing comma builds equal trees from equal children"))
    obs.append(Obligation("action.call_spellings", "xh", "c15", "call_spellings", timeout=T, bounds="0..3 extra arguments",
                          desc="r.f(a), r | f(a), f(r, a) build the same CallOp"))
    obs.append(Obligation("action.group", "xh", "c15", "group_is_transparent", timeout=T, bounds="-", desc="group production returns the inner tree"))
    return {
        "obligations": obs,
        "explanation": "CrossHair (z3) symbolic execution of the real grammar actions (p_* functions) on production stand-ins with "
                       "argument lists of symbolic length.",
        "functions": ["smartquery.rules.p_expression_call", "p_expression_method_call", "p_list_literal", "p_dict_literal", "p_expression_group"],
        "files": ["smartquery/rules.py", "smartquery/lexer.py"],
        "bounds": "argument lists <= 4",
        "outside": "token-level (LRC) and text-level (LXC) halves: see evidence keys added by those engines",
        "stubs": ["YaccProduction stand-in"],
        "assumptions": ["CrossHair's model of list/str"],
        "trusted": ["CrossHair 0.0.110", "z3"],
    }
