import sys, os; sys.path.insert(0, os.getcwd())

import smartquery
from smartquery import SqParser
from smartquery.exceptions import ParserError

assert smartquery.__file__.startswith(os.getcwd()), smartquery.__file__

parser = SqParser()


class Boom(Exception):
    pass


def run(expr, values):
    """ evaluates expr with probes p0, p1, ... ; values[i] is returned by (or, if an exception, raised by) p<i> """
    log = []

    def probe(i, v):
        def f():
            log.append(f'p{i}')
            if isinstance(v, BaseException):
                raise v
            return v
        return f

    names = {f'p{i}': probe(i, v) for i, v in enumerate(values)}
    try:
        res = ('ok', parser.eval(expr, names=names))
    except Exception as e:
        res = ('raised', type(e).__name__)
    return res, log


# sanity: numbers
assert run('p0() * p1()', [2, 3]) == (('ok', 6), ['p0', 'p1'])
assert run('p0() * p1()', [2, 'x']) == (('raised', 'ParserError'), ['p0', 'p1'])

# both operands of * are evaluated, left to right, BEFORE the multiplication (and its operand check) is applied:
# a non-number on the left must not stop the right operand from being evaluated
res, log = run('p0() * p1()', ['x', 3])
assert log == ['p0', 'p1'], f'right operand of * not evaluated: {log}'
assert res == ('raised', 'ParserError'), res

# ... so an error raised by the right operand is the one that surfaces
res, log = run('p0() * p1()', [None, Boom()])
assert log == ['p0', 'p1'], f'right operand of * not evaluated: {log}'
assert res == ('raised', 'Boom'), res

# nested: the inner product's operands are all evaluated before anything is applied
res, log = run('[p0(), p1() * (p2() or p3())]', [1, [], 0, Boom()])
assert log == ['p0', 'p1', 'p2', 'p3'], log
assert res == ('raised', 'Boom'), res

print('OK')
