import sys, os; sys.path.insert(0, os.getcwd())

import smartquery
from smartquery import SqParser

assert smartquery.__file__.startswith(os.getcwd()), smartquery.__file__

parser = SqParser()


def longest(names):
    return max(len(v) for v in names.values() if isinstance(v, (list, dict, str)))


for program in (
    'd = dict(a, b)',                 # two host dicts with disjoint keys
    'd = dict(items(a), b)',          # pairs + dict
    'd = dict(a, b, c)',
    'e = {"k": dict(a, b)}; d = e["k"]',
):
    names = {
        'a': {f'a{i}': i for i in range(6000)},
        'b': {f'b{i}': i for i in range(6000)},
        'c': {f'c{i}': i for i in range(6000)},
    }
    bound = max(10000, longest(names))  # 10000
    try:
        parser.eval(program, names=names)
    except Exception:
        pass  # the unchanged tree rejects dict() with more than one argument

    assert longest(names) <= bound, \
        f'{program!r} built a dict of {longest(names)} entries (bound {bound})'

    # and once it exists it can not even be used as a normal dict any more / keeps its size
    assert len(names['a']) == 6000 and len(names['b']) == 6000

print('ok')
