"""C08 harnesses (reduced scope): literals reach the Decimal constructor as their own text; arithmetic applies the
Decimal operator to the operand objects; numeric builtins never detour through binary float; finite differential
check of the real arithmetic against exact rationals."""
from decimal import Decimal as RealDecimal, getcontext, ROUND_HALF_EVEN
from fractions import Fraction

from sqv import hlib, decstub
from sqv.decstub import DecStub
from sqv.pstub import Tok, Lexer
from sqv.nodes import Stub, mkstate
from smartquery import ast_ops, functions, lexer
from smartquery.ast_ops import BinOp, UnaryOp
from smartquery.functions import FUNCTIONS
from sqv.api import run_eval, PARSER

LITERALS = ['0', '7', '0.1', '0.2', '0.3', '1.10', '10000000000000000000000000001', '10000000000000000000000000000',
            '1.00000000000000000000000000001', '123456789012345678901234567890.123456789012345678901234567890', '9007199254740993',
            '0.30000000000000004', '2.675', '1000000', '0.000000000000000000000000000001']


def literal_routing(li: int) -> None:
    """
    pre: 0 <= li < 15
    post: True
    """
    hlib.enter(locals())
    text = LITERALS[hlib.concrete(li, 0, 14)]
    saved = lexer.Decimal
    lexer.Decimal = DecStub
    try:
        t = Tok('NUMBER', text, 1, Lexer(1))
        r = lexer.t_NUMBER(t)
    finally:
        lexer.Decimal = saved
    assert r is t and isinstance(r.value, DecStub), "NUMBER token value is not built by the Decimal constructor"
    assert type(r.value.arg) is str and r.value.arg == text, \
        "numeric literal does not reach the Decimal constructor as its own text (detour through float/int/context rounding)"
    hlib.done()


def literal_exact(li: int) -> None:
    """
    pre: 0 <= li < 15
    post: True
    """
    hlib.enter(locals())
    text = LITERALS[hlib.concrete(li, 0, 14)]
    out = run_eval(text, {}, 100, parser=PARSER)
    assert out[0] == 'ok' and Fraction(out[1]) == Fraction(text), "numeric literal does not denote exactly its written value"
    hlib.done()


def operator_routing(swap: bool) -> None:
    """
    pre: True
    post: True
    """
    hlib.enter(locals())
    op = hlib.PARAM["op"]
    a, b = DecStub('1.5'), DecStub('2.5')
    if op in ('*', '**'):
        a, b = RealDecimal('1.5'), RealDecimal('2.5')     # '*' insists on numbers and converts with the (exact) constructor
    if swap:
        a, b = b, a
    saved = (ast_ops.Decimal,)
    ast_ops.Decimal = DecStub
    decstub.LOG.clear()
    try:
        if op == 'neg':
            r = UnaryOp('-', Stub([], 0, a)).eval(mkstate(0, 100))
            assert isinstance(r, DecStub) and r.op == ('neg', a), "unary minus is not the Decimal negation of its operand"
        else:
            r = BinOp(op, Stub([], 0, a), Stub([], 1, b)).eval(mkstate(0, 100))
            want = {'+': 'add', '-': 'sub', '/': 'div', '*': 'mul', '**': 'pow'}.get(op)
            if want in ('add', 'sub', 'div'):
                assert isinstance(r, DecStub) and r.op is not None and r.op[0] == want and r.op[1] is a and r.op[2] is b, \
                    "operator %s is not the Decimal operation on its two operand objects" % op
            elif want in ('mul', 'pow'):
                assert isinstance(r, DecStub) and r.op is not None and r.op[0] == want and r.op[1].arg is a and r.op[2].arg is b, \
                    "operator %s is not the Decimal operation on (exact copies of) its operands" % op
            else:
                cmpname = {'<': 'lt', '>': 'gt', '<=': 'le', '>=': 'ge'}.get(op)
                if cmpname:
                    assert (cmpname,) in decstub.LOG, "comparison %s is not the Decimal comparison" % op
    finally:
        ast_ops.Decimal = saved[0]
    hlib.done()


def builtin_no_float(nd: int, use_nd: bool) -> None:
    """
    pre: 0 <= nd <= 3
    post: True
    """
    hlib.enter(locals())
    name = hlib.PARAM["fn"]
    v, w = DecStub('2.5'), DecStub('1.5')
    saved = functions.Decimal
    functions.Decimal = DecStub
    try:
        f = FUNCTIONS[name]
        if name in ('min', 'max'):
            r = f(v, w)
        elif name == 'sum':
            r = f([v, w])
        elif name == 'round' and use_nd:
            r = f(v, nd)
        else:
            r = f(v)          # DecStub.__float__ raises: a detour through binary float is an AssertionError here
        if name in ('int', 'round', 'floor', 'ceil', 'abs'):
            assert isinstance(r, DecStub), "%s returns a native Python number instead of a Decimal (later arithmetic would be native / binary)" % name
    finally:
        functions.Decimal = saved
    hlib.done()


POOL = ['0.1', '0.2', '0.3', '1', '3', '7', '0.7', '2.675', '1.10', '10000000000000000000000000001', '9007199254740993',
        '0.000000000000000000000000000001', '9999999999999999999999999998', '0.5', '3000000000000000000000000001',
        '0.0000000000000000000000000005', '9999999999999999999999999999', '1.5', '9007199254740992', '0.30000000000000001']


def _round28(fr):
    """exact rational -> correctly rounded (half-even) to 28 significant digits, as a Fraction"""
    if fr == 0:
        return fr
    sign = -1 if fr < 0 else 1
    fr = abs(fr)
    e = 0
    while fr >= 10 ** 28:
        fr /= 10
        e += 1
    while fr < 10 ** 27:
        fr *= 10
        e -= 1
    n, d = fr.numerator, fr.denominator
    q, r = divmod(n, d)
    if 2 * r > d or (2 * r == d and q % 2 == 1):
        q += 1
    return sign * Fraction(q) * Fraction(10) ** e


def arithmetic_exact(i: int, j: int, neg: bool, computed: int = 0) -> None:
    """
    pre: 0 <= i < 20 and 0 <= j < 20 and 0 <= computed <= 2
    post: True
    """
    hlib.enter(locals())
    op = hlib.PARAM["op"]
    i, j, neg = hlib.concrete(i, 0, 19), hlib.concrete(j, 0, 19), (True if neg else False)
    computed = hlib.concrete(computed, 0, 2)
    with hlib.native():
        ok, msg = _exact_case(op, i, j, neg, computed)
    assert ok, msg
    hlib.done()


def _exact_case(op, i, j, neg, computed=0):
    a, b = POOL[i], POOL[j]
    # computed = 1 / 2: the left / right operand is the RESULT of an operation (x + 0), not a literal
    left = ("-" if neg else "") + a
    ta = "(" + left + " + 0)" if computed == 1 else left
    tb = "(" + b + " + 0)" if computed == 2 else b
    text = ta + " " + op + " " + tb
    out = run_eval(text, {}, 100, parser=PARSER)
    fa, fb = Fraction(a), Fraction(b)
    if neg:
        fa = _round28(-fa)          # unary minus is itself an operation under the 28-digit context
    if computed == 1:
        fa = _round28(fa)
    if computed == 2:
        fb = _round28(fb)
    if op in ('+', '-', '*', '/'):
        exact = {'+': fa + fb, '-': fa - fb, '*': fa * fb, '/': fa / fb}[op]
        return (out[0] == 'ok' and Fraction(out[1]) == _round28(exact)), \
            "%s is not the exact result correctly rounded (half-even) to 28 significant digits" % text
    exact = {'==': fa == fb, '<': fa < fb, '>': fa > fb, '<=': fa <= fb, '>=': fa >= fb, '!=': fa != fb}[op]
    return (out[0] == 'ok' and out[1] is exact), "%s disagrees with exact rational order" % text


def known_identity(x: int) -> None:
    """
    pre: True
    post: True
    """
    hlib.enter(locals())
    out = run_eval("0.1 + 0.2 == 0.3 and 1.1 * 3 == 3.3 and 2.675 * 100 == 267.5 and floor(1.5) / ceil(9.5) == 0.1 and "
                   "int(1.2) / round(9.6) == 0.1 and abs(0 - 3) / 10 == 0.3", {}, 100, parser=PARSER)
    assert out[0] == 'ok' and out[1] is True, "binary floating-point error visible in literal arithmetic"
    c = getcontext()
    assert c.prec == 28 and c.rounding == ROUND_HALF_EVEN
    hlib.done()


CH = ['1', '3', '7', '6', '0.7', '1.5']
HEADS = ['(1/{x})', '-(1/{x})', 'abs(1/{x})', 'hostval', '({x})']


def _apply(op, x, y):
    return _round28({'+': x + y, '-': x - y, '*': x * y, '/': x / y}[op])


def arithmetic_chain(hi: int, i: int, j: int, k: int) -> None:
    """
    pre: 0 <= hi < 5 and 0 <= i < 6 and 0 <= j < 6 and 0 <= k < 6
    post: True
    """
    # head o1 b o2 c: every operation is rounded on its own, in the order the operator table prescribes (no re-association)
    hlib.enter(locals())
    o1, o2 = hlib.PARAM["o1"], hlib.PARAM["o2"]
    hi, i, j, k = hlib.concrete(hi, 0, 4), hlib.concrete(i, 0, 5), hlib.concrete(j, 0, 5), hlib.concrete(k, 0, 5)
    with hlib.native():
        ok, text = _chain_case(hi, i, j, k, o1, o2)
    assert ok, "%s: operations are not each rounded half-even to 28 digits in the prescribed order" % text
    hlib.done()


def _chain_case(hi, i, j, k, o1, o2):
    x, b, c = CH[i], CH[j], CH[k]
    head = HEADS[hi].format(x=x)
    text = "%s %s %s %s %s" % (head, o1, b, o2, c)
    fx = Fraction(x)
    if hi in (0, 1, 2):
        h = _round28(Fraction(1) / fx)
        if hi == 1:
            h = -h
    else:
        h = fx
    fb, fc = Fraction(b), Fraction(c)
    hi_prec = lambda o: o in ('*', '/')
    if hi_prec(o2) and not hi_prec(o1):
        exact = _apply(o1, h, _apply(o2, fb, fc))
    else:
        exact = _apply(o2, _apply(o1, h, fb), fc)
    names = {'hostval': RealDecimal(x)}      # (built natively: under the tracer Decimal(...) is CrossHair's model class)
    out = run_eval(text, names, 100, parser=PARSER)
    return (out[0] == 'ok' and Fraction(out[1]) == exact), text


FAILING = ["round(1.5, 'x')", "round('1.5', 2)", "0 ** 0", "int('x')", "1 / 0", "floor('a')", "(0 - 8) ** 0.5", "10 ** 1000000", "abs('q')", "sum(['a'])"]


def after_failure(fi: int, twice: bool) -> None:
    """
    pre: 0 <= fi < 10
    post: True
    """
    # a numeric operation that FAILS leaves no trace: the next evaluation is still exact 28-digit half-even arithmetic
    hlib.enter(locals())
    fi = hlib.concrete(fi, 0, 9)
    with hlib.native():
        for _ in range(2 if twice else 1):
            run_eval(FAILING[fi], {}, 100, parser=PARSER)
        out = run_eval("[1 / 3, 2 / 3 * 3, 1234567890123456789012345678 + 0.5, 2 ** 0.5]", {}, 100, parser=PARSER)
        want = [RealDecimal(1) / RealDecimal(3), RealDecimal(2) / RealDecimal(3) * 3, RealDecimal('1234567890123456789012345678') + RealDecimal('0.5'),
                RealDecimal(2) ** RealDecimal('0.5')]
        c = getcontext()
        ctx_ok = c.prec == 28 and c.rounding == ROUND_HALF_EVEN
        ok = out[0] == 'ok' and [str(x) for x in out[1]] == ['0.3333333333333333333333333333', '2.000000000000000000000000000',
                                                             '1234567890123456789012345678', '1.414213562373095048801688724']
    assert ctx_ok, "after the failing call %r the decimal context is no longer the default one" % FAILING[fi]
    assert ok, "after the failing call %r arithmetic is no longer 28-digit half-even: %r" % (FAILING[fi], out[1] if out[0] == 'ok' else out)
    hlib.done()


# numeric builtins applied to expression trees: compared with exact rationals
BPOOL = ['0', '-1', '3', '-0.25', '0.5', '(1 - 1)', '(0.5 - 1)', '2.5', '-1.5', '0.0', '10000000000000000000000000001', '(0.1 + 0.2)', '-0.0',
         '1234.5678', '1250', '15', '-1350', '25']
BVAL = [Fraction(0), Fraction(-1), Fraction(3), Fraction(-1, 4), Fraction(1, 2), Fraction(0), Fraction(-1, 2), Fraction(5, 2), Fraction(-3, 2),
        Fraction(0), Fraction(10000000000000000000000000001), Fraction(3, 10), Fraction(0),
        Fraction('1234.5678'), Fraction(1250), Fraction(15), Fraction(-1350), Fraction(25)]


def _half_even(fr, nd=0):
    sc = Fraction(10) ** nd
    x = fr * sc
    q, r = divmod(x.numerator, x.denominator)
    if 2 * r > x.denominator or (2 * r == x.denominator and q % 2 == 1):
        q += 1
    return Fraction(q) / sc


def _sig_digits(fr):
    import decimal as _d
    with _d.localcontext(_d.Context(prec=200)):
        d = (RealDecimal(fr.numerator) / RealDecimal(fr.denominator)).normalize()
    return len(d.as_tuple().digits)


def _builtin_case(fn, form, i, j, k):
    import math as _m
    A, B, C = BPOOL[i], BPOOL[j], BPOOL[k]
    a, b, c = BVAL[i], BVAL[j], BVAL[k]
    if fn in ('min', 'max', 'sum'):
        if form == 0:
            text, vals = "%s([%s, %s, %s])" % (fn, A, B, C), [a, b, c]
        elif form == 1:
            text, vals = "[%s, %s] | %s" % (A, B, fn), [a, b]
        elif form == 2:
            text, vals = "%s([%s])" % (fn, A), [a]
        else:
            if fn == 'sum':
                return True, ''
            text, vals = "%s(%s, %s)" % (fn, A, B), [a, b]
        if fn == 'sum':
            exp = Fraction(0)
            for v in vals:
                exp = _round28(exp + v)
        else:
            exp = min(vals) if fn == 'min' else max(vals)
    else:
        text = "%s(%s)" % (fn, A) if form % 2 == 0 else "%s | %s" % (A, fn)
        exp = {'abs': lambda: abs(a), 'floor': lambda: Fraction(_m.floor(a)), 'ceil': lambda: Fraction(_m.ceil(a)),
               'int': lambda: Fraction(int(a)), 'round': lambda: _half_even(a)}[fn]()
        if fn == 'round' and form >= 1:
            nd = {1: 1, 2: -1, 3: -2}[form]
            text, exp = "round(%s, %s)" % (A, "0 - %d" % -nd if nd < 0 else str(nd)), _half_even(a, nd)
    out = run_eval(text, {}, 100, parser=PARSER)
    if out[0] != 'ok':
        # an error is acceptable only where the exact result does not fit 28 significant digits (e.g. round(x, 1) of a 29-digit x)
        return _sig_digits(exp) > 28, "%s fails (%s) although the exact result %s fits 28 digits" % (text, out[1:], exp)
    # abs / min / max of an operand wider than the context may or may not be rounded to it (both are "correctly rounded")
    ok = not isinstance(out[1], (bool, float)) and Fraction(out[1]) in (exp, _round28(exp))
    return ok, "%s = %s disagrees with exact rational arithmetic (%s)" % (text, (out[1] if out[0] == 'ok' else out[1:]), exp)


def builtin_exact(form: int, i: int, j: int, k: int) -> None:
    """
    pre: 0 <= form <= 3 and 0 <= i < 18 and 0 <= j < 18 and 0 <= k < 18
    post: True
    """
    hlib.enter(locals())
    fn = hlib.PARAM["fn"]
    form, i = hlib.concrete(form, 0, 3), hlib.concrete(i, 0, 17)
    bad = None
    with hlib.native():
        # the solver picks the call form and the first operand; the other operands are looped over natively
        multi = fn in ('min', 'max', 'sum')
        for jj in (range(18) if multi and form != 2 else [0]):
            for kk in (range(18) if multi and form == 0 else [0]):
                ok, msg = _builtin_case(fn, form, i, jj, kk)
                if not ok:
                    bad = msg
                    break
            if bad:
                break
    assert bad is None, bad
    hlib.done()
