"""Reference model of lists and dicts as the property C14 states them (written from the statement, not from
the code): sequences with truncating index casts and from-the-end negative positions; maps whose keys are
normalised to strings.  Each function returns (outcome, new_contents) with outcome ('ok', value) |
('done',) [must succeed, the statement's own value is not C14's business] | ('parser_error',) | ('unspecified',)  -- 'unspecified': the statement does not fix the result, only that the
container is unchanged."""
from decimal import Decimal


def idx(i):
    """decimal indices address the truncated integer position"""
    if isinstance(i, Decimal):
        return int(i)
    return i


def in_range(n, i):
    return -n <= i < n


def l_read(l, i):
    i = idx(i)
    if in_range(len(l), i):
        return ('ok', l[i]), list(l)
    return ('parser_error',), list(l)


def l_write(l, i, v):
    i = idx(i)
    if in_range(len(l), i):
        m = list(l)
        m[i] = v
        return ('done',), m
    return ('unspecified',), list(l)


def l_del(l, i):
    i = idx(i)
    if in_range(len(l), i):
        m = list(l)
        del m[i]
        return ('ok', None), m
    return ('unspecified',), list(l)


def l_push(l, v):
    return ('ok', None), list(l) + [v]


def l_pop(l, i=None):
    if i is None:
        if not l:
            return ('parser_error',), list(l)
        return ('ok', l[-1]), list(l[:-1])
    i = idx(i)
    if in_range(len(l), i):
        m = list(l)
        v = m.pop(i)
        return ('ok', v), m
    return ('parser_error',), list(l)


def l_insert(l, i, v):
    i = idx(i)
    n = len(l)
    if i < 0:
        i = max(0, n + i)
    i = min(i, n)
    return ('ok', None), list(l[:i]) + [v] + list(l[i:])


def l_remove(l, v):
    m = list(l)
    for k, x in enumerate(m):
        if x == v:
            del m[k]
            break
    return ('ok', None), m


def l_index_of(l, v):
    for k, x in enumerate(l):
        if x == v:
            return ('ok', k), list(l)
    return ('ok', None), list(l)


def key(k):
    """dict keys are normalised to strings"""
    return str(k)


def d_read(d, k):
    k = key(k)
    if k in d:
        return ('ok', d[k]), dict(d)
    return ('parser_error',), dict(d)


def d_get(d, k, default=None):
    k = key(k)
    return ('ok', d[k] if k in d else default), dict(d)


def d_write(d, k, v):
    m = dict(d)
    m[key(k)] = v
    return ('done',), m


def d_del(d, k):
    m = dict(d)
    m.pop(key(k), None)
    return ('ok', None), m
