import sys, os; sys.path.insert(0, os.getcwd())

import smartquery
from smartquery import SqParser, ParserError
from smartquery.exceptions import OpsExecutionLimitExceededError

assert smartquery.__file__.startswith(os.getcwd()), smartquery.__file__

parser = SqParser()


def outcome(prog, n, names):
    try:
        return 'ok', parser.eval(prog, names=names, max_ops_evaluated=n)
    except OpsExecutionLimitExceededError:
        return 'limit', None


# 1. exact budget on a small input.
#    code, call, rows, lambda = 4 operations, then for each of the 3 rows the body r["a"]:
#    __getitem__ call, r, "a" = 3 operations  ->  13 operations, i.e. a budget of 14 is the smallest
#    that lets the program return.
rows = [{'a': 3}, {'a': 1}, {'a': 2}]
for prog, expected in (
    ('rows | map(r => r["a"])', [3, 1, 2]),
    ('rows | sorted(r => r["a"])', [{'a': 1}, {'a': 2}, {'a': 3}]),
    ('rows | filter(r => r["a"] )', rows),
):
    assert outcome(prog, 14, {'rows': rows}) == ('ok', expected), prog
    for n in (13, 8, 5):
        kind, _ = outcome(prog, n, {'rows': rows})
        assert kind == 'limit', f'{prog!r}: 13 operations needed, returned normally with budget {n}'

# 2. the budget must bound the number of lambda-body evaluations whatever the size of the host's data
big = [{'a': i} for i in range(5000)]
for prog in ('rows | map(r => r["a"])', 'rows | sorted(r => r["a"])', 'pairs | map(p => p[1])'):
    names = {'rows': big, 'pairs': [(i, i) for i in range(5000)]}
    kind, res = outcome(prog, 100, names)
    assert kind == 'limit', \
        f'{prog!r}: {len(res)} lambda bodies evaluated by one eval() with max_ops_evaluated=100'

# 3. host callback driving the lambda
calls = []


def each(container, f):
    for item in container:
        calls.append(f(item))


kind, _ = outcome('each(rows, r => r["a"])', 50, {'rows': big, 'each': each})
assert kind == 'limit' and len(calls) < 50, (kind, len(calls))

print('ok')
