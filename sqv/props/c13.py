from sqv.driver import Obligation


def plan(ctx):
    T = 40 if ctx["tier"] == "quick" else 240
    from sqv.harness import c13 as h
    from smartquery.functions import FUNCTIONS
    obs, uncovered = [], []
    for name in sorted(FUNCTIONS):
        if name in h.MUTATORS:
            continue
        shapes = h.SHAPES.get(name)
        if shapes is None:
            shapes = h.GENERIC
            uncovered.append(f"builtin {name!r} is not in the shape table: only generic argument shapes were tried")
        shapes = list(shapes) + [x for x in h.ANY_POSITION if x not in shapes and not (name in ('shuffle', 'rand') and x[0] in 'WM')]
        for sh in shapes:
            obs.append(Obligation(f"fn.{name}.{sh or 'noargs'}", "xh", "c13", "nonmut", param={"fn": name, "shape": sh}, timeout=T,
                                  bounds="lists 0..3 symbolic ints, nested [[a],[b,c]], dict {'p':a,'q':[b]}, lists of strings / mixed values in any argument position; key/reverse flags symbolic",
                                  desc=f"FUNCTIONS[{name!r}] with argument shape {sh!r}: deep snapshot of list/dict arguments equal before and after (return or raise)"))
    for m in sorted(h.MUTATORS):
        if m not in FUNCTIONS:
            uncovered.append(f"mutator {m!r} named by the property is absent from the function table")
    for i, text in enumerate(h.PIPES):
        obs.append(Obligation(f"pipe.t{i}", "xh", "c13", "pipeline", param={"pipe": i}, timeout=T,
                              bounds="host list 0..3, nested list, dict with a list value; symbolic leaves",
                              desc=f"eval({text!r}) leaves the host objects unchanged"))
    return {
        "obligations": obs, "uncovered": uncovered,
        "explanation": "CrossHair (z3): every entry of the real FUNCTIONS table except the property's mutators, applied to containers "
                       "with symbolic leaves (table enumerated at run time), plus pipelines through SqParser.eval.",
        "functions": ["every non-mutator value of smartquery.functions.FUNCTIONS"],
        "files": ["smartquery/functions.py"],
        "bounds": "lists <= 3, fixed nested shapes",
        "outside": "regex builtins only with non-string container arguments (strings are immutable); larger containers",
        "stubs": ["random contract stub (shuffle/rand)"],
        "assumptions": ["CrossHair's models of list/dict/sorted/reversed/enumerate"],
        "trusted": ["CrossHair 0.0.110", "z3"],
    }
