from sqv.driver import Obligation
from sqv.props.c06 import lxc_precheck, lxc_obligations
from sqv import nodes


def plan(ctx):
    T = 60 if ctx["tier"] == "quick" else 300
    from sqv.harness import c18 as h
    from sqv.api import PARSER
    obs, uncovered = [], []
    obs.append(Obligation("filter", "xh", "c18", "names_filter", timeout=T * 2,
                          bounds="stub token stream of 0..4 tokens, each token NAME or one other type (NUMBER/STRING/IF, symbolic); first value a symbolic string <= 2 chars; lexer pre-state unbounded ints",
                          desc="list_names yields exactly the NAME token values in order after resetting position/line/depth (text and stream independent)"))
    obs.append(Obligation("twice", "xh", "c18", "names_twice", timeout=T, bounds="0..4 names, first generator consumed 0..4 items",
                          desc="an earlier (partially consumed) call does not change the next call on the same parser"))
    obs.append(Obligation("api.cached_near_duplicates", "xh", "c18", "api_lookups_cached", timeout=T * 2,
                          bounds="10 pairs of texts (7 differing only in blank runs inside %names%, 3 identical texts with list / dict literals, pipes, conditionals); either order; first text parsed or evaluated (finite domain)",
                          desc="with a parse cache, after a near-duplicate text: eval asks the host only for the names list_names reports for the text at hand"))
    obs.append(Obligation("names_exact", "xh", "c18", "names_exact", timeout=T * 3,
                          bounds="13 texts (identifiers that start / end like keywords, keywords next to names, %..% names holding keywords) x no earlier call or one of 9 failing texts through eval / parse / an abandoned listing (finite domain, native)",
                          desc="list_names gives exactly the identifiers of the text in source order, also right after a failed call on the same parser"))
    obs.append(Obligation("interleaved", "xh", "c18", "names_interleaved", timeout=T, bounds="listing consumed 0..4 names, then one of 4 calls on a second parser (finite domain)",
                          desc="a partly consumed list_names() is not disturbed by calls on another SqParser"))
    obs.append(Obligation("retyping", "xh", "c18", "name_retyping", timeout=T, bounds="identifier text symbolic <= 3 chars or one of the 17 keywords",
                          desc="t_NAME re-types exactly the keywords"))
    for p in PARSER.yacc.productions:
        if not p.name or p.callable is None:
            continue
        oid = "action." + p.name + "." + "_".join(p.prod) if p.prod else "action." + p.name + ".empty"
        obs.append(Obligation(oid, "xh", "c18", "action_names", param={"lhs": p.name, "syms": list(p.prod)}, timeout=T,
                              bounds="NAME token values symbolic (1..2 chars + index)", desc=f"names put into the tree by `{p.name} : {' '.join(p.prod)}`"))
    for p in nodes.kind_params():
        if p["op"] not in (None, '+', '+='):
            continue
        oid = f"lookups.{p['kind']}" + (f".{p['op']}" if p['op'] else "")
        obs.append(Obligation(oid, "xh", "c18", "node_lookups", param=p, timeout=T, bounds="name bound or not; 0..2 children",
                              desc="the node asks the names mapping only for its own name field"))
        obs.append(Obligation(oid + ".pct", "xh", "c18", "node_lookups", param={**p, "name": "%x y.z%"}, timeout=T, bounds="%..% name with blanks and dots, bound or not",
                              desc="the node asks the names mapping only for its own (percent) name, never for a variant of it"))
    for i, text in enumerate(h.TEMPLATES):
        obs.append(Obligation(f"api.t{i}", "xh", "c18", "api_lookups", param={"t": i}, timeout=T, bounds="host values symbolic",
                              desc=f"eval({text!r}) with a recording host mapping: every requested key is in list_names(text) or implicit"))
    obs += lxc_obligations(ctx, ['names', 'reference'])
    return {
        "precheck": lxc_precheck,
        "obligations": obs, "uncovered": uncovered,
        "explanation": "CrossHair (z3): list_names over a symbolic token stream (lexer stubbed), the NAME rule's keyword re-typing, the name "
                       "fields every real grammar action can put into a tree (actions taken from the parser tables), and the names each node "
                       "kind / template looks up, recorded by a logging mapping.",
        "functions": ["smartquery.sq_parser.SqParser.list_names", "smartquery.lexer.t_NAME", "every p_* action", "ast_ops.*.eval"],
        "files": ["smartquery/sq_parser.py", "smartquery/lexer.py", "smartquery/ast_ops.py", "smartquery/rules.py"],
        "bounds": "token streams <= 4, strings <= 3 chars",
        "outside": "character-level facts (names never overlap strings/comments, %..% names) are the LXC half",
        "stubs": ["stub lexer token stream", "production stand-ins", "recording mappings"],
        "assumptions": ["CrossHair's models of str/list/dict"],
        "trusted": ["CrossHair 0.0.110", "z3"],
    }
