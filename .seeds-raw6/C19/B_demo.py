import sys, os; sys.path.insert(0, os.getcwd())

from decimal import Decimal

import smartquery
from smartquery import SqParser

assert smartquery.__file__.startswith(os.getcwd()), smartquery.__file__

parser = SqParser()


def check(lst, draws=200):
    before = list(lst)
    for expr in ('rand(l)', 'l | rand', 'l.rand()'):
        for _ in range(draws):
            picked = parser.eval(expr, names={'l': lst})
            assert picked in lst, (expr, picked, lst)
    assert lst == before


# script literals, host ints, Decimals, strings, exactly representable floats
for _ in range(50):
    assert parser.eval('rand([1, 2, 3])') in [1, 2, 3]
check([1, 2, 3])
check([Decimal('0.1'), Decimal('2.5')])
check(['a', None, True, [1, 2]])
check([0.5, 0.25, 4.0])

# host-supplied floats (e.g. from parsed JSON): the drawn value must be an element of the list
check([0.1, 0.2, 0.7])
check([1 / 3])
check([2.675, 1e-7, 3.14159])

print('OK')
