"""Helpers shared by the CrossHair harnesses (imported inside the harness process, snapshot on sys.path)."""
import os

PARAM = None      # per-obligation concrete parameter (node kind, builtin name, template, ...)
EXCLUDES = []     # known-finding exclusion predicates (python expressions over the harness arguments)
TWIN = False      # reachability-twin mode: done() raises
TIER = os.environ.get("SQV_TIER", "quick")   # quick | thorough (set by the worker / the replay from the obligation record)


def deep():
    return TIER == "thorough"


class Reach(AssertionError):
    pass


def _ignore():
    if os.environ.get("SQV_MODE") == "crosshair":
        from crosshair.core import IgnoreAttempt
        raise IgnoreAttempt("assume")
    raise ReplaySkip("assumption does not hold for these arguments")


class ReplaySkip(Exception):
    pass


def assume(cond):
    """Path-level assumption (placed before the code it constrains)."""
    if not cond:
        _ignore()


def enter(args: dict):
    """First statement of every harness: carve out known-finding regions."""
    for expr in EXCLUDES:
        if expr.startswith("CALL:"):
            # one exact argument tuple whose counterexample did not reproduce under plain Python: look elsewhere
            import ast as _ast
            pos, kw = _ast.literal_eval(expr[5:])
            names = list(args)
            want = dict(zip(names, pos))
            want.update(kw)
            same = True
            for k, v in want.items():
                if k not in args or not (args[k] == v):
                    same = False
                    break
            if same:
                _ignore()
            continue
        if eval(expr, {}, dict(args)):
            _ignore()


def done():
    """Last statement of every normally completing harness path (vacuity witness)."""
    if TWIN:
        raise Reach("REACH")


def concrete(x, lo, hi):
    """Return x as a plain Python int, forking on its value (finite domain lo..hi).  Used before a value crosses
    into C code (Decimal, round, ...) where CrossHair's symbolic proxies are not modelled."""
    for c in range(lo, hi + 1):
        if x == c:
            return c
    assume(False)


_CACHES = None


def _find_caches():
    import sys
    out = []
    for name, mod in list(sys.modules.items()):
        if name.split('.')[0] != 'smartquery' or mod is None:
            continue
        for v in list(vars(mod).values()):
            if callable(getattr(v, 'cache_clear', None)):
                out.append(v)
    return out


def reset_caches():
    """clear every functools cache reachable from the smartquery modules, so that each explored path (and the replay)
    starts from the same process state while caching WITHIN the path stays real"""
    global _CACHES
    if os.environ.get("SQV_MODE") == "crosshair":
        from crosshair.tracers import NoTracing
        with NoTracing():
            if _CACHES is None:
                _CACHES = _find_caches()
            for c in _CACHES:
                c.cache_clear()
    else:
        for c in _find_caches():
            c.cache_clear()


class native:
    """run a block without CrossHair tracing (concrete, fast); no-op under replay"""

    def __init__(self, unwalled=False):
        self.unwalled = unwalled

    def __enter__(self):
        self.cm = None
        self.wall = None
        if os.environ.get("SQV_MODE") == "crosshair":
            from crosshair.tracers import NoTracing
            self.cm = NoTracing()
            self.cm.__enter__()
            if self.unwalled:
                # constructing SqParser() rewrites the SNAPSHOT's gen/*.py: allowed here, nowhere else
                from crosshair import auditwall
                if auditwall._ENABLED:
                    self.wall = auditwall.opened_auditwall()
                    self.wall.__enter__()
        return self

    def __exit__(self, *exc):
        if self.wall is not None:
            self.wall.__exit__(*exc)
        if self.cm is not None:
            self.cm.__exit__(*exc)
        return False
