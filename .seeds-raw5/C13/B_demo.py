import sys, os; sys.path.insert(0, os.getcwd())
import copy

import smartquery
from smartquery import SqParser

assert smartquery.__file__.startswith(os.getcwd()), smartquery.__file__

parser = SqParser()

# single calls and one-line pipelines on host data behave (with and without the change)
names = {'xs': [3, 1, 2]}
assert parser.eval('xs | sorted | reversed', names=names) == [3, 2, 1]
assert parser.eval('xs | map(v => v + 1) | sorted', names=names) == [2, 3, 4]
assert names == {'xs': [3, 1, 2]}

# 1. a result bound to a name, then handed to another non-mutator
names = {'xs': [3, 1, 2]}
res = parser.eval('a = xs | sorted\nb = a | reversed\na', names=names)
assert res == [1, 2, 3], f'reversed(a) reordered its argument a: {res}'
assert names['b'] == [3, 2, 1]

# 2. the same across two eval() calls sharing the host's names
names = {'xs': [3, 1, 2]}
parser.eval('a = filter(xs, v => v > 1)', names=names)
before = copy.deepcopy(names['a'])
assert parser.eval('sorted(a)', names=names) == [2, 3]
assert names['a'] == before == [3, 2], f'sorted(a) reordered its argument: {before} -> {names["a"]}'

# 3. nested: rows produced by a builtin and stored inside another container
names = {'rows': [[2, 1], [4, 3]]}
parser.eval('t = rows | map(r => sorted(r))', names=names)
before = copy.deepcopy(names['t'])
assert parser.eval('t | map(r => reversed(r))', names=names, max_ops_evaluated=1000) == [[2, 1], [4, 3]]
assert names['t'] == before, f'map/reversed changed the rows of t: {before} -> {names["t"]}'

print('ok')
