import sys, os; sys.path.insert(0, os.getcwd())
import signal
import time

import smartquery
from smartquery import SqParser

assert smartquery.__file__.startswith(os.getcwd()), smartquery.__file__

# hard stop: if a call hangs, die with a non-zero status instead of waiting for minutes
signal.alarm(120)

BOUND = 1.0  # seconds; the property promises ~50 ms + linear time

parser = SqParser()

# First alternative: overlapping alternation under '+', backtracks exponentially on the
# subject and runs into the 50 ms regex timeout.
# Second alternative: a group holding 17 escaped backslashes (34 characters) and an 'x' -
# harmless for the matcher, it only has to be present in the pattern text.
pattern = r'(?:a|a)+$|(' + '\\' * 34 + r'x)'
subject = 'a' * 40 + 'b'

worst = 0.0
for func in ('match', 'match_groups', 'match_all'):
    t0 = time.perf_counter()
    try:
        res = parser.eval(f'subject | {func}(pattern)',
                          names={'subject': subject, 'pattern': pattern})
    except Exception as e:  # a (timeout) error is the expected, acceptable outcome - if it is quick
        res = e
    dt = time.perf_counter() - t0
    worst = max(worst, dt)
    print(f'{func}: {dt:.3f}s -> {res!r}')
    assert isinstance(res, TimeoutError), res

assert worst < BOUND, f'regex builtin needed {worst:.2f}s to give up on a {len(pattern)}-character pattern'
print('ok')
