from sqv.driver import Obligation


def plan(ctx):
    T = 60 if ctx["tier"] == "quick" else 300
    obs = [Obligation("constant", "xh", "c05", "timeout_constant", timeout=T, bounds="-", desc="0 < REGEX_TIMEOUT <= 0.1")]
    from smartquery.functions import FUNCTIONS
    uncovered = []
    for fn in ('match', 'match_groups', 'match_all'):
        if fn not in FUNCTIONS:
            uncovered.append(f"{fn} missing from the function table")
            continue
        obs.append(Obligation(f"engine_calls.{fn}", "xh", "c05", "engine_calls", param={"fn": fn}, timeout=T * 4,
                              bounds="flag string: every subset of {i,m,s,x} in lower or upper case, or None, or omitted (symbolic); the stubbed engine reports 0..4 matches (symbolic); clock readings are arbitrary non-decreasing instants (symbolic increments 0..10 s); every re/regex module and precompiled pattern reachable from functions.py is stubbed; the primary engine may reject the pattern (symbolic)",
                              desc=f"{fn}: every entry into a regular-expression engine carries timeout in [0, 0.1]; at most 2 engine calls per builtin call"))
    obs.append(Obligation("failing_call_repeated", "xh", "c05", "failing_call_repeated", timeout=T * 2,
                          bounds="each of the three builtins; failure by engine refusal / engine timeout / non-string subject; the same call three times (finite domain)",
                          desc="module-level state of functions.py (constants, counters, semaphores, caches) after the third identical failing call equals the state after the second: nothing drifts per failure"))
    obs.append(Obligation("call_sequence", "xh", "c05", "call_sequence", timeout=T * 4,
                          bounds="4 consecutive calls: one builtin twice (both refused by the engine, or neither), then any two builtins, the first of them refused or not (all symbolic)",
                          desc="every engine entry of every call carries a timeout in [0, 0.1], also after earlier calls failed inside the engine"))
    for fn in ('match', 'match_groups', 'match_all'):
        if fn in FUNCTIONS:
            obs.append(Obligation(f"python_steps.{fn}", "xh", "c05", "python_steps", param={"fn": fn}, timeout=T * 4,
                                  bounds="pattern length from {0, 50, 65535, 65537, 100000}, subject length 0 or 100000 (indices symbolic); one or two consecutive calls; 6 patterns with braces / escapes / groups; the engine (stubbed, one match) may refuse the pattern once with one of 5 realistic messages",
                                  desc=f"{fn}: Python lines executed in functions.py <= 3000 + 4 * (len(pattern) + len(subject)) (counted with sys.monitoring): no unbounded / super-linear Python-level phase around the engine call"))
    return {
        "obligations": obs, "uncovered": uncovered,
        "explanation": "REDUCED SCOPE: wall-clock behaviour of the `regex` C engine cannot be encoded. Decided with CrossHair (z3): with "
                       "the regex module replaced by a recording stub, on every path of the three builtins (symbolic subject/pattern/flags) "
                       "each engine entry carries the small timeout and the number of engine entries is bounded.",
        "functions": ["smartquery.functions._match", "_match_groups", "_match_all", "_parse_flags"],
        "files": ["smartquery/functions.py"],
        "bounds": "flag subsets of {i,m,s,x}; engine hit count 0..4; call sequences of length 4; pattern / subject lengths up to 10**5 for the line-count bound",
        "outside": "the timing claim itself: rests on the regex module honouring timeout= (and pattern compilation, which has no timeout)",
        "stubs": ["regular-expression engine stub for every re/regex module object and precompiled pattern in smartquery.functions", "nondeterministic clock for time.time/perf_counter/monotonic/process_time"],
        "assumptions": ["regex honours its timeout argument", "pattern compilation time is not covered"],
        "trusted": ["CrossHair 0.0.110", "z3", "regex (third party)"],
    }
