"""C10 harnesses: innermost-first lookup, host write-back, no leaking lambda scopes."""
from typing import Dict, List

from sqv import hlib
from sqv.nodes import StubRaise, mkstate
from smartquery import ast_ops
from smartquery.ast_ops import Op, LambdaOp, NameOp
from smartquery.scoped_dict import ScopedDict
from smartquery.functions import FUNCTIONS
from smartquery.exceptions import ParserError
from sqv.api import run_eval, prewarm, CACHED


NAMES = ['a', 'b']
NONE_AT = None          # scope level whose bindings have the value None (a None binding still shadows outer ones)


def _mk(bits, depth):
    """stack of `depth` real dicts over the names a, b: presence decided by (symbolic) bools"""
    scopes = []
    for d in range(depth):
        sc = {}
        for n in range(2):
            if bits[d * 2 + n]:
                sc[NAMES[n]] = None if (NONE_AT is not None and NONE_AT == d) else d * 10 + n
        scopes.append(sc)
    sd = ScopedDict(scopes[0])
    for s in scopes[1:]:
        sd.push_scope(s)
    return sd, scopes


def sd_get(b0: bool, b1: bool, b2: bool, b3: bool, b4: bool, b5: bool, depth: int, qa: bool, other: bool) -> None:
    """
    pre: 1 <= depth <= 3
    post: True
    """
    hlib.enter(locals())
    global NONE_AT
    NONE_AT = hlib.PARAM.get("none_at") if isinstance(hlib.PARAM, dict) else None
    sd, scopes = _mk([b0, b1, b2, b3, b4, b5], depth)
    NONE_AT = None
    q = 'zz' if other else ('a' if qa else 'b')
    exp = None
    found = False
    for s in reversed(scopes):
        if q in s:
            exp, found = s[q], True
            break
    raised = None
    got = None
    try:
        got = sd[q]
    except Exception as e:
        raised = e
    if found:
        assert raised is None and got == exp and (got is None) == (exp is None), "lookup did not return the innermost binding (a None value shadows too)"
    else:
        assert isinstance(raised, KeyError), "lookup of an unbound name must raise KeyError (a LookupError)"
    assert len(sd.scopes) == depth
    hlib.done()


def sd_set(b0: bool, b1: bool, b2: bool, b3: bool, b4: bool, b5: bool, depth: int, qa: bool, other: bool, v: int) -> None:
    """
    pre: 1 <= depth <= 3
    post: True
    """
    hlib.enter(locals())
    sd, scopes = _mk([b0, b1, b2, b3, b4, b5], depth)
    q = 'zz' if other else ('a' if qa else 'b')
    before = [dict(s) for s in scopes]
    sd[q] = v
    assert len(sd.scopes) == depth
    for i in range(depth - 1):
        assert scopes[i] == before[i], "assignment changed an outer scope"
    top = dict(before[depth - 1])
    top[q] = v
    assert scopes[depth - 1] == top, "assignment did not land (only) in the top scope"
    assert sd[q] == v
    hlib.done()


def sd_scope(b0: bool, b1: bool, b2: bool, b3: bool, qa: bool, fail: bool, nested: bool) -> None:
    """
    pre: True
    post: True
    """
    hlib.enter(locals())
    sd, scopes = _mk([b0, b1, b2, b3], 1)
    s0 = scopes[0]
    p = {}
    if b2:
        p['a'] = 7
    if b3:
        p['b'] = 8
    q = 'a' if qa else 'b'
    before = dict(s0)
    raised = None
    try:
        with sd.make_scope(p):
            assert len(sd.scopes) == 2 and sd.scopes[-1] is p
            sd[q] = 1
            if nested:
                with sd.make_scope({}):
                    sd[q] = 2
                    if fail:
                        raise StubRaise()
                assert sd[q] == 1
            if fail:
                raise StubRaise()
    except StubRaise as e:
        raised = e
    assert (raised is not None) == fail
    assert len(sd.scopes) == 1 and sd.scopes[0] is s0, "scope not popped when the body %s" % ("raised" if fail else "returned")
    assert s0 == before, "binding made inside a scope leaked into the outer scope"
    hlib.done()


class Body(Op):
    """lambda body stand-in: rebinds its parameter, creates a local, may re-enter the lambda, may raise"""

    def __init__(self):
        self.closure = None
        self.plan = []       # per activation: (reenter, fail)
        self.depth = 0
        self.seen = []

    def eval(self, state):
        Op.eval(self, state)
        reenter, fail = self.plan[self.depth] if self.depth < len(self.plan) else (False, False)
        self.depth += 1
        mine = state.names['p']
        self.seen.append(mine)
        state.names['p'] = mine + 100
        state.names['loc'] = mine
        if reenter:
            try:
                self.closure(mine + 1)
            except StubRaise:
                pass
        assert state.names['p'] == mine + 100, "inner call changed the caller's parameter binding"
        assert state.names['loc'] == mine, "inner call changed the caller's local"
        if fail:
            raise StubRaise()
        return mine


def lambda_call(pv: int, host_p: bool, hv: int, re0: bool, f0: bool, f1: bool) -> None:
    """
    pre: True
    post: True
    """
    hlib.enter(locals())
    body = Body()
    node = LambdaOp(args=[NameOp('p')], expr=body)
    host = {'p': hv} if host_p else {}
    st = mkstate(0, 10**6, host=host, functions={'len': len})
    f = node.eval(st)
    body.closure = f
    body.plan = [(re0, f0), (False, f1)]
    before_host = dict(host)
    before_depth = len(st.names.scopes)
    raised = None
    try:
        r = f(pv)
    except StubRaise as e:
        raised = e
    assert (raised is not None) == f0
    assert body.seen[0] == pv and (not re0 or body.seen[1] == pv + 1), "parameter not bound positionally"
    assert len(st.names.scopes) == before_depth, "lambda scope leaked after the call %s" % ("raised" if f0 else "returned")
    assert host == before_host, "lambda call altered a host binding (parameter or local leaked)"
    assert st.names.scopes[0] == {'len': len}, "lambda call altered the builtin scope"
    hlib.done()


class Body0(Op):
    """body of a lambda that binds NOTHING (no parameters / called with no arguments): assigns a local and a name that
    also exists in the host mapping"""

    def __init__(self, fail):
        self.fail = fail

    def eval(self, state):
        Op.eval(self, state)
        state.names['loc'] = 1
        state.names['p'] = 2
        if self.fail:
            raise StubRaise()
        return state.names['p']


def lambda_call_nothing_bound(host_p: bool, hv: int, fail: bool, declared: int, nested: bool) -> None:
    """
    pre: 0 <= declared <= 1
    post: True
    """
    # a call that binds no parameter (none declared, or one declared and none passed) still runs in a scope of its own
    hlib.enter(locals())
    declared = hlib.concrete(declared, 0, 1)
    body = Body0(True if fail else False)
    node = LambdaOp(args=[NameOp('q')][:declared], expr=body)
    host = {'p': hv} if host_p else {}
    st = mkstate(0, 10**6, host=host, functions={'len': len})
    f = node.eval(st)
    before_host = dict(host)
    before_depth = len(st.names.scopes)
    outer = {'p': 50, 'loc': 60}
    raised = None
    try:
        if nested:
            with st.names.make_scope(outer):          # as if called from inside another lambda call
                f()
        else:
            f()
    except StubRaise as e:
        raised = e
    except TypeError:
        hlib.done()          # (refusing a call with too few arguments is fine)
        return
    assert (raised is not None) == body.fail
    assert len(st.names.scopes) == before_depth, "lambda scope leaked after a call that binds no parameter"
    assert host == before_host, "assignment inside a lambda call that binds no parameter altered the host's names"
    assert outer == {'p': 50, 'loc': 60}, "assignment inside a lambda call that binds no parameter altered the calling lambda's bindings"
    hlib.done()


TEMPLATES = [
    "len(l)",
    "f = len => len\nf(pv)",
    "f = (len, l) => len\nf(pv, 0)",
    "y = a\nz = y\nz",
    "f = p => boom(p)\nh(f)\np",
    "f = p => boom(p)\nh(g => [1, 2] | map(f))\np",
    "f = p => boom(p)\nh(g => sorted([1, 2], f))\np",
    "f = p => boom(p)\nh(g => [1, 2] | filter(f))\np",
    "f = (p, q) => boom(p)\nh(g => [1, 2] | reduce(f))\np",
    "len = a\nlen",
    "f = p => g(1)\ng = x => p\nf(pv)",
    "f = p => p\nf(pv)\np",
    "size = v => len(v)\nr1 = size(l)\nlen = v => a\n[r1, size(l)]",
    "g = (len, v) => len(v)\n[g(len, l), g(w => pv, l)]",
    "x = a\ng = y => x + y\nf = x => g(zero)\nf(pv)",
    # (15..) a NON-callable inner binding shadows an outer function also in call position (the call then fails)
    "max(1, 2)",
    "sum = 0\nsum([1, 2])",
    "f = len => len([1, 2, 3])\nf(7)",
    "[1, 2] | map(min => min(min, 5))",
    "f = v => v\ng = f => f(1)\ng(3)",
    # (20..) with pre-parsed definitions passed as ast_names: top-level assignments still land in the host's mapping
    "y = a\nz = k2 + y\nz",
    "y = a\ny += k2\ny",
    # (22..) a nested eval (own names mapping) fails inside a host callback: the outer program's lambdas go on resolving in the outer mapping
    "f = x => x + kk\nr1 = f(1)\nh2(0)\n[r1, f(1)]",
    # (23..) a lambda made inside a lambda call and called after that call returned sees the bindings of ITS call time, not the finished call's
    "add = a => (b => [a, b])\ninc = add(1)\ninc(10)[zero]",
    "mk = pv => (v => pv)\ng = mk(5)\ng(0)",
]
if isinstance(hlib.PARAM, dict) and "t" in hlib.PARAM:
    prewarm(TEMPLATES[hlib.PARAM["t"]])
if isinstance(hlib.PARAM, dict) and "text" in hlib.PARAM:
    prewarm(hlib.PARAM["text"])
prewarm("len = 7\nlen", "zz = 7\nzz", "len('abc')", "len('abcd')", "zz", "pv")


def api_scope(hb: bool, hv: int, pv: int, a: int, n: int) -> None:
    """
    pre: 0 <= n <= 2
    post: True
    """
    hlib.enter(locals())
    t = hlib.PARAM["t"]
    text = TEMPLATES[t]
    l = [0] * n

    def boom(x):
        raise StubRaise()

    def h(f):
        try:
            f(0)
        except Exception:
            pass
        return None
    names = {'l': l, 'pv': pv, 'a': a, 'boom': boom, 'h': h, 'p': hv, 'zero': 0}
    host_len = (lambda x: hv)
    if hb:
        names['len'] = host_len
    if t == 15:
        names['max'] = 10
    if t == 22:
        from sqv.api import PARSER as _P2

        def h2(_x):
            try:
                _P2.eval("nosuch + kk", {'kk': 1000})
            except Exception:
                pass
            return None
        names['h2'] = h2
        names['kk'] = 1
    fn_before = dict(FUNCTIONS)
    if t >= 20:
        from sqv.api import CACHED as _C
        with hlib.native():
            astn = {'k2': _C.parse("pv")}
        try:
            out = ('ok', _C.eval(text, names, ast_names=astn, max_ops_evaluated=10**4))
        except Exception as e:
            out = ('err', type(e), e)
    else:
        out = run_eval(text, names, 10**4)
    assert FUNCTIONS == fn_before and FUNCTIONS['len'] is len, "the builtin table was modified"
    if t == 0:
        assert out[0] == 'ok' and out[1] == (hv if hb else n), "host binding must override the builtin (and only then)"
    elif t in (1, 2):
        assert out[0] == 'ok' and out[1] == pv, "parameter must shadow host binding and builtin"
        assert ('len' in names) == hb and (not hb or names['len'] is host_len), "parameter binding leaked into the host names"
    elif t == 3:
        assert out[0] == 'ok' and out[1] == a and names['y'] == a and names['z'] == a, "top-level assignment not written to the host mapping"
    elif t in (4, 5, 6, 7, 8):
        assert out[0] == 'ok' and out[1] == hv, "scope of a failed lambda call (error swallowed by a host callback) leaked"
        assert names['p'] == hv
    elif t == 9:
        assert out[0] == 'ok' and out[1] == a and names['len'] == a
    elif t == 10:
        assert out[0] == 'ok' and out[1] == pv, "dynamic scoping: callee must see the caller's parameter"
        assert names['p'] == hv
    elif t == 11:
        assert out[0] == 'ok' and out[1] == hv and names['p'] == hv, "parameter binding survived the call"
    elif t == 12:
        hlib.assume(not hb)
        assert out[0] == 'ok' and out[1] == [n, a], "a top-level binding made after the first use of a call site does not shadow the builtin there"
    elif t == 13:
        hlib.assume(not hb)
        assert out[0] == 'ok' and out[1] == [n, pv], "a parameter named like a builtin does not shadow it on a later call"
    elif t == 14:
        assert out[0] == 'ok' and out[1] == pv, "a parameter of an outer call in progress must shadow the host/top-level binding for callees (dynamic scoping)"
    elif t in (15, 16, 17, 18, 19):
        assert out[0] == 'err', "a non-callable inner binding did not shadow the outer function in call position (the call returned %r)" % (out[1],)
    elif t == 22:
        assert out[0] == 'ok' and out[1] == [2, 2], "after a nested eval failed inside a host callback, the outer program's lambda resolves its free names elsewhere: %r" % (out[1],)
    elif t == 23:
        assert out[0] == 'ok' and out[1] == a, "a lambda called after the call that created it returned still sees that call's parameter (expected the host's a)"
    elif t == 24:
        assert out[0] == 'ok' and out[1] == pv, "a lambda called after the call that created it returned still sees that call's parameter (expected the host's pv)"
    elif t == 20:
        assert out[0] == 'ok' and out[1] == a + pv and names.get('y') == a and names.get('z') == a + pv, "with ast_names, top-level assignments were not written to the host's mapping"
    elif t == 21:
        assert out[0] == 'ok' and out[1] == a + pv and names.get('y') == a + pv, "with ast_names, a compound assignment was not written to the host's mapping"
    hlib.done()


def two_evals(hv: int, n: int, first_shadowed: bool) -> None:
    """
    pre: 0 <= n <= 2
    post: True
    """
    # the same source evaluated twice on one parser (tree shared through the parse cache): host bindings override
    # builtins in EVERY call, whatever an earlier call resolved at the same call site
    hlib.enter(locals())
    l = [0] * n
    text = hlib.PARAM["text"]
    shadow = {'l': l, 'len': (lambda x: hv), 'lower': (lambda x: hv), 'str': (lambda x: hv)}
    plain = {'l': l}
    order = [shadow, plain] if first_shadowed else [plain, shadow]
    outs = [run_eval(text, dict(nm), 1000) for nm in order]
    for nm, out in zip(order, outs):
        assert out[0] == 'ok'
        if nm is shadow:
            assert out[1] == hv, "host binding does not override the builtin on this call (an earlier call resolved the same call site)"
        else:
            assert out[1] != hv or hv == n, "builtin not used although the host does not bind the name"
    hlib.done()


def no_names_history(a: int, first_assigns_len: bool) -> None:
    """
    pre: True
    post: True
    """
    # eval() without a names mapping: its assignments go nowhere; later evals (with or without names) are unaffected
    hlib.enter(locals())
    from sqv.api import CACHED as P
    t1 = "len = a0\nlen" if first_assigns_len else "zz = a0\nzz"
    try:
        P.eval(t1.replace('a0', '7'))
    except Exception:
        pass
    out1 = run_eval("len('abc')", None, 100)
    out2 = run_eval("len('abcd')", {'a': a}, 100)
    out3 = run_eval("zz", None, 100)
    assert out1[0] == 'ok' and out1[1] == 3 and out2[0] == 'ok' and out2[1] == 4, "an assignment made by an eval() without names survived into a later eval()"
    assert out3[0] == 'err', "a variable of an eval() without names is visible to a later eval()"
    hlib.done()
