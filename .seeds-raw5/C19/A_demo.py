import sys, os; sys.path.insert(0, os.getcwd())

from decimal import Decimal

import smartquery
from smartquery import SqParser

assert smartquery.__file__.startswith(os.getcwd()), smartquery.__file__

parser = SqParser()

# ordinary ranges
for _ in range(200):
    n = parser.eval('rand(1, 10)')
    assert 1 <= n <= 10 and n == int(n), n
    n = parser.eval('rand(-3, -2)')
    assert -3 <= n <= -2 and n == int(n), n

# degenerate but legal ranges: a == b  ->  the only possible result is a
cases = [
    ('rand(1, 1)', None, 1),
    ('rand(0, 0)', None, 0),
    ('rand(-7, -7)', None, -7),
    ('rand(5.0, 5)', None, 5),
    ('rand(a, b)', {'a': 4, 'b': 4}, 4),
    ('rand(a, b)', {'a': Decimal('12345678901234567890'), 'b': 12345678901234567890}, 12345678901234567890),
    # the usual "random index" idiom on a one-element list
    ('l[rand(0, len(l) - 1)]', {'l': ['only']}, 'only'),
    ('7 | rand(7)', None, 7),
]

for expr, names, expected in cases:
    for _ in range(5):
        res = parser.eval(expr, names=dict(names) if names else None)
        assert res == expected, (expr, names, res)

print('ok')
