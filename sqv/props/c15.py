from sqv.driver import Obligation
from sqv.props.c06 import lrc_precheck, both_prechecks, lxc_obligations


def plan(ctx):
    T = 40 if ctx["tier"] == "quick" else 240
    obs = []
    for form in ('call', 'DOT', 'PIPE', 'list', 'dict'):
        obs.append(Obligation(f"action.trailing_comma.{form}", "xh", "c15", "trailing_comma_call", param={"form": form}, timeout=T,
                              bounds="argument/element list length 1..4 (symbolic), name <= 2 chars",
                              desc="the production with and without the trailing comma builds equal trees from equal children"))
    obs.append(Obligation("action.call_spellings", "xh", "c15", "call_spellings", timeout=T, bounds="0..3 extra arguments",
                          desc="r.f(a), r | f(a), f(r, a) build the same CallOp"))
    obs.append(Obligation("action.group", "xh", "c15", "group_is_transparent", timeout=T, bounds="-", desc="group production returns the inner tree"))
    quick = ctx["tier"] == "quick"
    for q, desc in (("rw_newline", "an extra statement separator (start, end, next to another one) never changes acceptance"),
                    ("rw_comma_removed", "a trailing comma before a closing bracket can be removed"),
                    ("rw_comma_added", "where an optional-trailing-comma production was used, adding the comma keeps acceptance"),
                    ("rw_parens", "parenthesising the text of any subexpression keeps acceptance"),
                    ("rw_dot_pipe", "r.f(a..) and r | f(a..) are interchangeable")):
        for sl, (lq, lt) in {"full_noreserved": (5, 7), "brackets": (7, 9), "operators": (6, 8)}.items():
            L = lq if quick else lt
            obs.append(Obligation(f"lrc.{q}.{sl}", "z3", "lrc_checks", q, param={"L": L, "slice": sl}, timeout=300 if quick else 1500, twin_timeout=0,
                                  bounds=f"all token strings of length <= {L} over the {sl} alphabet (the rewritten string is 1-2 tokens longer)",
                                  desc="two charts over a string and its rewrite: " + desc))
    from sqv.harness import txt
    for i, prog in enumerate(txt.PROGRAMS):
        obs.append(Obligation(f"txt.layout_rewrite.p{i}", "xh", "txt", "layout_rewrite", param={"program": i}, timeout=T * 3,
                              bounds="one of 21 concrete programs (one with several hundred blank statements) (strings and comments containing brackets/quotes/#, nested multi-line literals, %..% names); "
                                     "rewrite kind symbolic (finite domain chosen by the solver); every applicable position of that rewrite then tried natively on the real lexer+parser within the path",
                              desc=f"program {i}: 18 rewrites (space/tab at a token boundary, a line break for any blank inside brackets, comments before a line end and as whole lines, line break after a token inside brackets, CRLF, ; <-> newline, blank statements, trailing comma in calls and lists, parentheses around literals and operand names, . -> | for method calls with arguments) at every applicable position: parse(base) == parse(rewritten)"))
    obs += lxc_obligations(ctx, ['blank', 'crlf', 'reference'])
    return {
        "precheck": both_prechecks,
        "obligations": obs,
        "explanation": "CrossHair (z3) symbolic execution of the real grammar actions (p_* functions) on production stand-ins with "
                       "argument lists of symbolic length.",
        "functions": ["smartquery.rules.p_expression_call", "p_expression_method_call", "p_list_literal", "p_dict_literal", "p_expression_group"],
        "files": ["smartquery/rules.py", "smartquery/lexer.py"],
        "bounds": "argument lists <= 4",
        "outside": "token level decides ACCEPTANCE invariance of the rewrites (tree equality rests on the action-level obligations: equal children give equal trees); text level (spaces, comments, CRLF, line breaks in brackets) is the LXC half",
        "stubs": ["YaccProduction stand-in"],
        "assumptions": ["CrossHair's model of list/str"],
        "trusted": ["CrossHair 0.0.110", "z3"],
    }
