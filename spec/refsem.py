"""Reference semantics of smartquery, written from the statement of property C07 (not from the implementation):
Python semantics over exact decimals; string-on-the-left concatenation coercion; decimal-to-integer index casts and
key-to-string dict casts; dynamically scoped lambdas with positional parameters; statements yield None and the last
line gives the result.  It interprets the trees the real parser builds (node classes are only used as syntax), so
real `SqParser.eval(text)` can be compared with `ref_run(parse(text))`, and single nodes with stub children can be
compared step by step.

Errors: RefParserError stands for "language-level ParserError"; any other exception class stands for "other error".
"""
import copy
import functools
import math
from decimal import Decimal

from spec import container_model as M


class RefParserError(Exception):
    pass


class Unspecified(Exception):
    """the statement does not fix this behaviour (not a well-typed use): the comparison is skipped"""


NUM = (Decimal, int, float)


class Env:
    """scope stack: [builtins, host names, call scopes...]"""

    def __init__(self, host, builtins):
        self.scopes = [builtins, host]
        self.ops = 0

    def get(self, k):
        for s in reversed(self.scopes):
            if k in s:
                return s[k]
        raise KeyError(k)

    def set(self, k, v):
        self.scopes[-1][k] = v


def D(x):
    from smartquery.custom_types import Decimal as SqDecimal     # only the *type* of results (repr) comes from the package
    return SqDecimal(x)


def binop(op, a, b_thunk):
    if op == 'and':
        return a and b_thunk()
    if op == 'or':
        return a or b_thunk()
    b = b_thunk()
    if op == '+':
        if isinstance(a, str) and not isinstance(b, str):
            b = str(b)
        return a + b
    if op == '-':
        return a - b
    if op == '*':
        if not isinstance(a, NUM) or not isinstance(b, NUM):
            raise RefParserError("multiply non-numbers")
        return D(a) * D(b)
    if op == '**':
        return D(a) ** D(b)
    if op == '/':
        return a / b
    if op == '==':
        return a == b
    if op == '!=':
        return a != b
    if op == '>':
        return a > b
    if op == '<':
        return a < b
    if op == '>=':
        return a >= b
    if op == '<=':
        return a <= b
    if op == 'in':
        return a in b
    if op == 'not in':
        return a not in b
    raise RefParserError("unsupported operator")


def short(op, cur, v):
    if op == '+=':
        return cur + v if not isinstance(cur, list) else cur.__iadd__(v)
    if op == '-=':
        return cur - v
    if op == '*=':
        if not isinstance(cur, NUM) or not isinstance(v, NUM):
            raise RefParserError("multiply non-numbers")
        return D(cur) * D(v)
    if op == '/=':
        return cur / v
    raise RefParserError("unsupported short op")


def ref_eval(node, env):
    env.ops += 1
    k = type(node).__name__
    if k == 'Stub':
        return node.result
    if k == 'NoOp':
        return None
    if k == 'ValueOp':
        return node.v
    if k == 'CodeOp':
        r = None
        for line in node.lines:
            r = ref_eval(line, env)
        return r
    if k == 'BinOp':
        a = ref_eval(node.op1, env)
        return binop(node.op, a, lambda: ref_eval(node.op2, env))
    if k == 'UnaryOp':
        v = ref_eval(node.op1, env)
        if node.op == '-':
            return -v
        if node.op == 'not':
            return not v
        return None
    if k == 'AssignOp':
        env.set(node.name, copy.deepcopy(ref_eval(node.value, env)))
        return None
    if k == 'ShortOp':
        v = copy.deepcopy(ref_eval(node.value, env))
        try:
            cur = env.get(node.name)
        except KeyError:
            raise RefParserError("undefined variable")
        if node.op == '+=' and isinstance(cur, list) and isinstance(v, list) and len(cur) + len(v) > 10000:
            raise RefParserError("size cap")
        env.set(node.name, short(node.op, cur, v))
        return None
    if k == 'NameOp':
        try:
            return env.get(node.name)
        except KeyError:
            raise RefParserError("undefined variable")
    if k == 'IfExprOp':
        return ref_eval(node.op1, env) if ref_eval(node.cond, env) else ref_eval(node.op2, env)
    if k == 'SliceOp':
        parts = [ref_eval(x, env) for x in (node.start, node.stop, node.step)]
        return slice(*[int(p) if p is not None else None for p in parts])
    if k == 'CallOp':
        args = [ref_eval(a, env) for a in node.args]
        try:
            f = env.get(node.name)
        except KeyError:
            raise RefParserError("undefined function")
        return f(*args)
    if k == 'DictOp':
        out = {}
        for kn, vn in node.d:
            kk = M.key(ref_eval(kn, env))
            out[kk] = ref_eval(vn, env)
        return out
    if k == 'LambdaOp':
        params = [p.name for p in node.args]

        def f(*args):
            env.scopes.append(dict(zip(params, args)))
            try:
                return ref_eval(node.expr, env)
            finally:
                env.scopes.pop()
        return f
    raise NotImplementedError(k)


# ------------------------------------------------------------------------------------------------------------------
# builtins (deterministic ones), re-implemented from their documented meaning
def _cap(c):
    if len(c) >= 10000:
        raise RefParserError("size cap")


def _conv(outcome):
    """container_model outcome -> value / exception"""
    if outcome[0] == 'ok':
        return outcome[1]
    if outcome[0] == 'parser_error':
        raise RefParserError()
    return None


def r_getitem(c, k):
    if isinstance(c, dict):
        o, _ = M.d_read(c, k)
        return _conv(o)
    if isinstance(k, slice):
        return c[k]
    i = M.idx(k)
    try:
        return c[i]
    except LookupError:
        raise RefParserError()


def r_setitem(c, k, v):
    _cap(c)
    if isinstance(c, dict):
        c[M.key(k)] = copy.deepcopy(v)
    else:
        if not M.in_range(len(c), M.idx(k)):
            raise Unspecified()
        c[M.idx(k)] = copy.deepcopy(v)
    return v


def r_setitem_op(c, k, op, v):
    _cap(c)
    kk = M.key(k) if isinstance(c, dict) else M.idx(k)
    v = copy.deepcopy(v)
    try:
        cur = c[kk]
    except LookupError:
        raise RefParserError()
    if op == '+=' and isinstance(cur, list) and isinstance(v, list) and len(cur) + len(v) > 10000:
        raise RefParserError("size cap")
    c[kk] = short(op, cur, v)
    return v


def r_delitem(c, k):
    if isinstance(c, dict):
        c.pop(M.key(k), None)
    else:
        i = M.idx(k)
        if not M.in_range(len(c), i):
            raise Unspecified()
        del c[i]


def r_get(c, k, default=None):
    kk = M.key(k) if isinstance(c, dict) else M.idx(k)
    return c.get(kk, default)


def r_map(c, f):
    if isinstance(c, (list, str)):
        return [f(v) for v in c]
    if isinstance(c, dict):
        return [f(k, v) for k, v in c.items()]
    raise RefParserError()


def r_filter(c, f):
    if isinstance(c, list):
        return [v for v in c if f(v)]
    raise RefParserError()


def r_reduce(c, f):
    return functools.reduce(f, c)


def r_sorted(c, key=None, reverse=False):
    if isinstance(c, dict):
        if callable(key):
            return dict(sorted(c.items(), key=lambda p: key(p[0], p[1]), reverse=reverse))
        return dict(sorted(c.items(), key=key, reverse=reverse))
    return sorted(c, key=key, reverse=reverse)


def r_push(a, v):
    _cap(a)
    a.append(v)


def r_insert(a, i, v):
    _cap(a)
    a.insert(int(i), v)


def r_pop(a, i=None):
    o, after = M.l_pop(a, i)
    if o[0] == 'parser_error':
        raise RefParserError()
    a[:] = after
    return o[1]


def r_remove(c, v):
    if isinstance(c, list):
        if v in c:
            c.remove(v)
    elif v in c:
        del c[v]


def r_index_of(c, v):
    return _conv(M.l_index_of(c, v)[0])


def r_pretty_number(v, sep=' '):
    """thousands grouping as the tests and the README examples show it: the sign is not a digit; what follows it is cut
    into groups of three from the right (texts shorter than five characters are left alone)"""
    s = str(v)
    sign, body = ('-', s[1:]) if s.startswith('-') else ('', s)
    if len(body) < 5:
        return s
    groups = []
    while body:
        groups.insert(0, body[-3:])
        body = body[:-3]
    return sign + sep.join(groups)


REF = {
    'len': len, 'int': lambda v: D(int(v)), 'float': lambda v: D(float(v)), 'str': str, 'dict': dict, 'list': lambda *a: list(a),
    'startswith': lambda s, *a: s.startswith(*a), 'endswith': lambda s, *a: s.endswith(*a), 'lower': lambda s: s.lower(),
    'upper': lambda s: s.upper(), 'strip': lambda s, *a: s.strip(*a),
    'replace': lambda s, old, new, count=-1: s.replace(old, new, int(count)),
    'keys': lambda d: list(d.keys()), 'values': lambda d: list(d.values()), 'items': lambda d: list(d.items()),
    'sum': lambda v: sum(v) if isinstance(v, list) else v,
    'get': r_get, '__getitem__': r_getitem, '__delitem__': r_delitem, '__setitem__': r_setitem, '__setitem_with_op__': r_setitem_op,
    'map': r_map, 'filter': r_filter, 'reduce': r_reduce,
    'join': lambda c, sep='\n': sep.join(str(x) for x in c),
    'split': lambda s, sep=' ', max_split=-1: s.split(sep, int(max_split)),
    'round': lambda v, nd=None: D(str(round(v, int(nd) if nd is not None else None))),
    'floor': lambda v: D(str(math.floor(v))), 'ceil': lambda v: D(str(math.ceil(v))), 'abs': lambda v: D(abs(v)),
    'min': min, 'max': max,
    'push': r_push, 'pop': r_pop, 'insert': r_insert, 'remove': r_remove,
    'sorted': r_sorted, 'reversed': lambda c: c[::-1] if isinstance(c, str) else list(reversed(c)),
    'enumerate': lambda c: list(enumerate(c)), 'index_of': r_index_of,
}
NOT_MODELLED = {'pretty', 'rand', 'shuffle', 'match', 'match_groups', 'match_all'}


def ref_run(tree, host, real_functions):
    """evaluate a parsed program against `host` (mutated in place, like the real eval)"""
    builtins = {k: REF.get(k, v) for k, v in real_functions.items()}
    env = Env(host, builtins)
    if tree is None:
        return None, env
    return ref_eval(tree, env), env
