import sys, os; sys.path.insert(0, os.getcwd())

from decimal import Decimal

import smartquery
from smartquery import SqParser

assert smartquery.__file__.startswith(os.getcwd()), smartquery.__file__

parser = SqParser()


def check(expr, lo, hi, names=None, draws=200):
    for _ in range(draws):
        n = parser.eval(expr, names=dict(names) if names else None)
        assert n == int(n), (expr, n)
        assert lo <= n <= hi, (expr, n)


# ordinary ranges
check('rand(1, 10)', 1, 10)
check('rand(-7, -3)', -7, -3)
check('rand(0, 5)', 0, 5)
check('rand(3, 3)', 3, 3)

# ranges whose upper bound is zero: a <= n <= 0
check('rand(-5, 0)', -5, 0)
check('rand(0, 0)', 0, 0)
check('-3 | rand(0)', -3, 0)
check('rand(a, b)', -2, 0, names={'a': -2, 'b': 0})
check('rand(a, b)', -2, 0, names={'a': Decimal(-2), 'b': Decimal('0')})

print('OK')
