#!/usr/bin/env python3
"""Regenerates MANIFEST.json from the table below (kept here so the manifest stays consistent)."""
import json, os
HERE = os.path.dirname(os.path.dirname(os.path.abspath(__file__)))

CLAIMED = {
 "C01": dict(
   text="Bounded symbolic checking (solver verdict over all values inside the stated bounds): CrossHair/z3 executes the real "
        "Op.eval and every node class's eval with stub children from an arbitrary counter k and budget N (unbounded ints); "
        "API templates with symbolic budget and host bindings; cross-eval lambda obligation.",
   note="Assumes structural induction over the syntax tree (not mechanised), CrossHair's models of int/bool/list/dict, "
        "formatting stub for symbolic ints in messages. List-typed child fields <= 2, closure calls <= 2.",
   technique="symbolic execution of the real evaluator with CrossHair (z3), one inductive step per node kind + API templates",
   ref="DESIGN §6 C01"),
}
NOT_YET = {}
NA = {}

def main():
    props = [json.loads(l) for l in open(os.path.join(HERE, "properties.jsonl"))]
    checks = []
    na = []
    for p in props:
        i = p["id"]
        if i in CLAIMED:
            c = CLAIMED[i]
            checks.append({
                "property_id": i,
                "quick_cmd": f"./check {i} --tier quick",
                "thorough_cmd": f"./check {i} --tier thorough",
                "evidence_file": f"evidence/{i}.json",
                "replay_cmd_template": f"./check {i} --replay {{path}}",
                "engine": c.get("engine", "XH"),
                "level_claimed": {"category": "other", "text": c["text"], "design_ref": c["ref"]},
                "level_note": c["note"],
                "technique": c["technique"],
            })
        else:
            na.append({"property_id": i, "reason": NA.get(i, "check not built yet (work in progress); no claim is made")})
    m = {
        "version": 1,
        "setup_cmd": "./setup.sh",
        "hooks": {
            "guard": "SMARTQUERY_VERIF",
            "enable": "no source hooks: all stubs are installed from the harness side on a scratch snapshot of /repo's working tree",
            "baseline_off_cmd": "cd /repo && /venv/bin/python -m pytest -ra -q -p no:cacheprovider --timeout=900 --continue-on-collection-errors",
            "source_commits": [],
            "add_only": True,
        },
        "engines": [
            {"name": "XH", "path": "sqv/xh_worker.py", "serves_properties": sorted(k for k, v in CLAIMED.items() if "XH" in v.get("engine", "XH")),
             "kind_free_text": "CrossHair 0.0.110 symbolic execution (z3) of the real Python functions from a snapshot of /repo"},
        ],
        "checks": checks,
        "not_applicable": na,
        "notes": "Every check snapshots /repo's working tree, regenerates its encodings from it, and replays counterexamples with plain Python before reporting.",
    }
    json.dump(m, open(os.path.join(HERE, "MANIFEST.json"), "w"), indent=1)

if __name__ == "__main__":
    main()
