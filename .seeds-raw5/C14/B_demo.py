import sys, os; sys.path.insert(0, os.getcwd())

import smartquery
from smartquery import SqParser, ParserError

assert smartquery.__file__.startswith(os.getcwd()), smartquery.__file__

parser = SqParser()


def run(src, names):
    return parser.eval(src, names=names, max_ops_evaluated=1000)


def raises_parser_error(src, names):
    try:
        run(src, names)
    except ParserError:
        return True
    return False


# model: a python dict with str() keys, driven by the same operations
names = {'d': {}}
model = {}

# ordinary values, including the falsy ones, under every kind of key
for key_src, key, value_src, value in [
    ('"a"', 'a', '1', 1),
    ('1', '1', '0', 0),
    ('2.5', '2.5', '""', ''),
    ('True', 'True', 'False', False),
    ('None', 'None', '[]', []),
]:
    run(f'd[{key_src}] = {value_src}', names)
    model[key] = value
    assert run(f'd[{key_src}]', names) == model[key]
    assert run(f'd[{key_src}] == {value_src}', names) is True
    assert run(f'd.get({key_src})', names) == model.get(key)

assert names['d'] == model
assert run('d.keys()', names) == list(model.keys())
assert run('len(d)', names) == len(model)

# a missing key raises ParserError and changes nothing
assert raises_parser_error('d["missing"]', names)
assert names['d'] == model

# None is a value like any other: once stored under a key, a read has to observe it
run('d["n"] = None', names)
model['n'] = None

assert names['d'] == model
assert run('"n" in d', names) is True
assert run('d.keys()', names)[-1] == 'n'
assert run('d.get("n", "dflt")', names) is None
assert run('len(d)', names) == len(model)

assert not raises_parser_error('d["n"]', names), \
    'd["n"] = None was stored (it is in keys(), `in` and len() see it) but reading d["n"] raises ParserError'
assert run('d["n"]', names) is model['n']
assert run('d["n"] == None', names) is True, 'd[k] = v must be followed by d[k] == v'

# the same for a None written by a dict literal and for one supplied by the host
assert run('{"x": None, 1: 2}["x"]', {}) is None
assert run('cfg["timeout"] == None', {'cfg': {'timeout': None}}) is True

print('OK')
