"""LRC: the run of the real LALR(1) tables (PLY) over a SYMBOLIC token string, as an SMT chart.

Tables (action, goto, productions, defaulted states) are taken from a freshly constructed SqParser of the snapshot.
See DESIGN §4 for the Sum/Dot/Reach definitions.  All definitions are introduced as named Boolean constants
(`name == body`), built lazily from configuration (state 0, position 0).
"""
import itertools
import time

import z3

END = '$end'


class Tables:
    def __init__(self, parser):
        lr = parser.yacc
        self.action = {int(s): dict(d) for s, d in lr.action.items()}
        self.goto = {int(s): dict(d) for s, d in lr.goto.items()}
        self.defaulted = dict(lr.defaulted_states)
        self.prods = []
        for p in lr.productions:
            self.prods.append({"name": p.name, "prod": tuple(p.prod), "len": p.len,
                               "func": getattr(p, 'func', None) or (p.callable.__name__ if p.callable else None)})
        self.nonterms = sorted({p["name"] for p in self.prods[1:]})
        terms = set()
        for d in self.action.values():
            terms |= set(d)
        for p in self.prods:
            for x in p["prod"]:
                if x not in self.nonterms:
                    terms.add(x)
        terms.discard('error')
        self.terms = sorted(terms)
        self.code = {t: i for i, t in enumerate(self.terms)}
        self.by_lhs = {}
        for idx, p in enumerate(self.prods):
            if idx == 0:
                continue
            self.by_lhs.setdefault(p["name"], []).append(idx)
        self._path = {}

    def step(self, q, X):
        if X in self.nonterms:
            return self.goto.get(q, {}).get(X)
        a = self.action.get(q, {}).get(X)
        return a if (a is not None and a > 0) else None

    def path(self, q, p, m):
        """state on top after recognising the first m symbols of production p from state q (None if impossible)"""
        key = (q, p, m)
        if key in self._path:
            return self._path[key]
        if m == 0:
            r = q
        else:
            prev = self.path(q, p, m - 1)
            r = None if prev is None else self.step(prev, self.prods[p]["prod"][m - 1])
        self._path[key] = r
        return r

    def summary(self):
        return {"states": len(self.action), "action_entries": sum(len(d) for d in self.action.values()),
                "goto_entries": sum(len(d) for d in self.goto.values()), "productions": len(self.prods) - 1,
                "terminals": len(self.terms), "defaulted_states": len(self.defaulted)}


class Cycle(Exception):
    pass


class Chart:
    """chart of one automaton over one token string tok[0..L] (tok[L] = $end; strings shorter than L are padded with $end)"""

    def __init__(self, tables, L, name='c', alphabet=None, toks=None):
        self.t = tables
        self.L = L
        self.name = name
        self.alphabet = [a for a in (alphabet or tables.terms) if a != END]
        self.bits = max(1, (len(tables.terms) - 1).bit_length())
        self.tok = toks if toks is not None else [z3.BitVec(f"{name}_tok{j}", self.bits) for j in range(L + 1)]
        self.defs = []
        self.nvars = 0
        self._sum, self._dot, self._reach, self._busy = {}, {}, {}, set()
        self.base = []
        if toks is None:
            self.base = self.token_constraints()

    def token_constraints(self):
        cs = []
        allowed = [self.t.code[a] for a in self.alphabet] + [self.t.code[END]]
        for j in range(self.L):
            cs.append(z3.Or([self.tok[j] == c for c in allowed]))
            cs.append(z3.Implies(self.tok[j] == self.t.code[END], self.tok[j + 1] == self.t.code[END]))
        cs.append(self.tok[self.L] == self.t.code[END])
        return cs

    def is_(self, j, term):
        return self.tok[j] == self.t.code[term]

    def _name(self, kind, key, body):
        """introduce a definition; returns the Boolean constant (or None for constant false)"""
        if body is None:
            return None
        v = z3.Bool(f"{self.name}_{kind}_{'_'.join(str(k) for k in key)}")
        self.defs.append(v == body)
        self.nvars += 1
        return v

    @staticmethod
    def _and(*xs):
        if any(x is None for x in xs):
            return None
        xs = [x for x in xs if x is not True]
        if not xs:
            return True
        return z3.And(*xs) if len(xs) > 1 else xs[0]

    @staticmethod
    def _or(xs):
        xs = [x for x in xs if x is not None]
        if not xs:
            return None
        if any(x is True for x in xs):
            return True
        return z3.Or(*xs) if len(xs) > 1 else xs[0]

    def dot(self, q, p, m, i, j):
        key = (q, p, m, i, j)
        if key in self._dot:
            return self._dot[key]
        if m == 0:
            r = True if i == j else None
            self._dot[key] = r
            return r
        if j < i:
            return None
        t = self.t
        X = t.prods[p]["prod"][m - 1]
        qm1 = t.path(q, p, m - 1)
        r = None
        if qm1 is not None and t.path(q, p, m) is not None:
            if X in t.nonterms:
                alts = []
                for k in range(i, j + 1):
                    d = self.dot(q, p, m - 1, i, k)
                    if d is None:
                        continue
                    s = self.sum(qm1, X, k, j)
                    alts.append(self._and(d, s))
                r = self._or(alts)
            else:
                if j - 1 >= i and j - 1 < self.L and X != END:
                    d = self.dot(q, p, m - 1, i, j - 1)
                    r = self._and(d, self.is_(j - 1, X))
        if r is not None and r is not True:
            r = self._name("D", key, r)
        self._dot[key] = r
        return r

    def redok(self, qn, p, j):
        t = self.t
        if qn in t.defaulted:
            return True if t.defaulted[qn] == -p else None
        las = [a for a, v in t.action.get(qn, {}).items() if v == -p]
        if not las:
            return None
        return self._or([self.is_(j, a) for a in las if a in t.code])

    def sum(self, q, A, i, j):
        key = (q, A, i, j)
        if key in self._sum:
            return self._sum[key]
        if key in self._busy:
            raise Cycle(str(key))
        self._busy.add(key)
        t = self.t
        alts = []
        for p in t.by_lhs.get(A, []):
            n = t.prods[p]["len"]
            qn = t.path(q, p, n)
            if qn is None:
                continue
            d = self.dot(q, p, n, i, j)
            if d is None:
                continue
            alts.append(self._and(d, self.redok(qn, p, j)))
        r = self._or(alts)
        if r is not None and r is not True:
            r = self._name("S", key, r)
        self._busy.discard(key)
        self._sum[key] = r
        return r

    # ---- occurrences -------------------------------------------------------------------------------------
    def _preds(self):
        """inverse of path: target state -> [(q, p, m)] with m >= 1"""
        if hasattr(self, "_predmap"):
            return self._predmap
        t = self.t
        pm = {}
        for q in t.action:
            for p in range(1, len(t.prods)):
                # [p: . alpha] is in the closure of q exactly when q has a goto on lhs(p)
                if t.prods[p]["name"] not in t.goto.get(q, {}):
                    continue
                for m in range(1, t.prods[p]["len"] + 1):
                    r = t.path(q, p, m)
                    if r is None:
                        break
                    pm.setdefault(r, []).append((q, p, m))
        self._predmap = pm
        return pm

    def reach(self, q, j):
        """configuration (top state q, next token index j) occurs in the run"""
        key = (q, j)
        if key in self._reach:
            return self._reach[key]
        if ('R',) + key in self._busy:
            return None          # a cyclic justification is not a justification
        self._busy.add(('R',) + key)
        alts = []
        if q == 0 and j == 0:
            alts.append(True)
        for (q0, p, m) in self._preds().get(q, []):
            for i in range(0, j + 1):
                d = self.dot(q0, p, m, i, j)
                if d is None:
                    continue
                r0 = self.reach(q0, i)
                alts.append(self._and(r0, d))
        r = self._or(alts)
        if r is not None and r is not True:
            r = self._name("R", key, r)
        self._busy.discard(('R',) + key)
        self._reach[key] = r
        return r

    def accept(self):
        t = self.t
        qa = t.goto[0].get('code')
        assert t.action[qa].get(END) == 0, "state after `code` does not accept on $end"
        r = self._or([self._and(self.sum(0, 'code', 0, j), self.is_(j, END)) for j in range(self.L + 1)])
        return z3.BoolVal(False) if r is None else (z3.BoolVal(True) if r is True else r)

    def err_at(self, j):
        """the run stops with a syntax error when the lookahead is tok[j]"""
        t = self.t
        alts = []
        for q in t.action:
            if q in t.defaulted:
                continue
            r = self.reach(q, j)
            if r is None:
                continue
            # (PLY stores an explicit None for "nonassoc" errors)
            missing = [a for a in t.terms if t.action[q].get(a) is None]
            if not missing:
                continue
            alts.append(self._and(r, self._or([self.is_(j, a) for a in missing])))
        return self._or(alts)

    def reduction(self, q, p, i, j):
        """the run performs `reduce p` with the handle spanning tok[i:j] directly above state q"""
        t = self.t
        n = t.prods[p]["len"]
        qn = t.path(q, p, n)
        if qn is None:
            return None
        return self._and(self.reach(q, i), self.dot(q, p, n, i, j), self.redok(qn, p, j))

    def solver(self, timeout_ms=None):
        s = z3.Solver()
        if timeout_ms:
            s.set("timeout", int(timeout_ms))
        return s

    def flush(self, s, mark=[0]):
        """add definitions created since the last flush of this chart to solver s"""
        start = getattr(self, "_flushed", 0)
        if start == 0:
            for c in self.base:
                s.add(c)
        for d in self.defs[start:]:
            s.add(d)
        self._flushed = len(self.defs)


def concrete_tokens(chart, model):
    out = []
    for j in range(chart.L):
        v = model.eval(chart.tok[j], model_completion=True).as_long()
        name = chart.t.terms[v] if v < len(chart.t.terms) else '?'
        if name == END:
            break
        out.append(name)
    return out


# sample text of each terminal (for replays / validation through the real lexer+parser)
SAMPLE = {
    'NAME': 'a', 'NUMBER': '1', 'STRING': '"s"', 'EQ': '==', 'NE': '!=', 'GT': '>', 'LT': '<', 'LTE': '<=', 'GTE': '>=',
    'PLUS': '+', 'MINUS': '-', 'TIMES': '*', 'POWER': '**', 'DIVIDE': '/', 'LPAREN': '(', 'RPAREN': ')', 'LBRACKET': '[',
    'RBRACKET': ']', 'COMMA': ',', 'DOT': '.', 'PIPE': '|', 'ASSIGN': '=', 'SHORT_OP': '+=', 'LAMBDA': '=>', 'COLON': ':',
    'LBRACE': '{', 'RBRACE': '}', 'NEWLINE': ';', 'AND': 'and', 'OR': 'or', 'IN': 'in', 'NOT': 'not', 'IF': 'if', 'ELSE': 'else',
    'TRUE': 'True', 'FALSE': 'False', 'NONE': 'None', 'DEL': 'del', 'FOR': 'for', 'WHILE': 'while', 'BREAK': 'break',
    'CONTINUE': 'continue', 'DEF': 'def', 'RAISE': 'raise', 'ELIF': 'elif',
}
RESERVED_UNUSED = {'FOR', 'WHILE', 'BREAK', 'CONTINUE', 'DEF', 'RAISE', 'ELIF'}


def render(tokens):
    """token type names -> a source text the real lexer turns back into exactly these tokens"""
    names = iter("abcdefghijklmnopqrstuvwxyz")
    out = []
    for t in tokens:
        if t == 'NAME':
            out.append(next(names, 'zz'))
        else:
            out.append(SAMPLE[t])
    return " ".join(out)
