from sqv.driver import Obligation


def plan(ctx):
    T = 60 if ctx["tier"] == "quick" else 300
    from sqv.harness import c14 as h
    obs = []
    for op, (text, _) in h.LIST_OPS.items():
        obs.append(Obligation(f"list.{op}", "xh", "c14", "list_op", param={"lop": op}, timeout=T,
                              bounds="list length 0..4 with symbolic int elements; index symbolic int -6..6 or one of 11 Decimals "
                                     "(fractions, negative, out of range); value symbolic",
                              desc=f"eval({text!r}) vs sequence model: result, error class, final contents"))
    for op, (text, _) in h.DICT_OPS.items():
        obs.append(Obligation(f"dict.{op}", "xh", "c14", "dict_op", param={"dop": op}, timeout=T,
                              bounds="dict over keys {'1','a','None'} (presence symbolic, values symbolic); key from a pool of 15 "
                                     "(int, Decimal 1 / 1.0 / 1.50 / -0, bool, None, strings)",
                              desc=f"eval({text!r}) vs map model with str-normalised keys"))
    for f in range(5):
        obs.append(Obligation(f"literal_fresh.t{f}", "xh", "c14", "literal_fresh", param={"f": f}, timeout=T, bounds="host int symbolic",
                              desc=f"eval({h.FRESH[f][0]!r}): a literal inside a lambda body is a new container on every call"))
    for vop in ("remove", "index_of", "in"):
        obs.append(Obligation(f"list.values_decimal.{vop}", "xh", "c14", "list_values_decimal", param={"vop": vop}, timeout=T,
                              bounds="list of up to 4 Decimals (2, 2.5, 0, -1.5) + an int; value from 11 Decimals incl. fractions (finite domain)",
                              desc=f"{vop} by VALUE with fractional decimals vs the sequence model"))
    for w, text in enumerate(h.WRITE):
      for r in range(6):
        obs.append(Obligation(f"key_roundtrip.w{w}.r{r}", "xh", "c14", "key_roundtrip", param={"w": w, "r": r}, timeout=T,
                              bounds="key: pool of 15 (index symbolic) or a symbolic int -2..11; observation path r in {d[k], get, "
                                     "__getitem__, get with default, keys, del+len}",
                              desc=f"after {text!r}: d[k] == v via every read path, key among keys(d), del removes it"))
    for i, text in enumerate(["d[k1] = v1\nd[k2]", "d[k1] = v1\nd[k2] = v2\nd[k2]", "d[k1] = v1\ndel d[k2]\nlen(d)",
                              "d[k1] = v1\nget(d, k2)", "d[k2] = v2\nd[k1] = v1\nd[k2]"]):
        obs.append(Obligation(f"two_keys.t{i}", "xh", "c14", "two_keys", param={"text": text}, timeout=T, extra={"keep_lru_cache": True},
                              bounds="15 x 15 key pairs (int 1, Decimal 1 / 1.0 / 1.50, True, '1', None, 'None', ...), values symbolic; "
                                     "functools.lru_cache left active (CrossHair normally bypasses it)",
                              desc=f"eval({text!r}) vs map model: equal-valued keys with different string forms are different keys"))
    from sqv.harness import c14 as h14
    for i, (text, _e) in enumerate(h14.LITKEYS):
        obs.append(Obligation(f"literal_keys.t{i}", "xh", "c14", "literal_keys", param={"lk": i}, timeout=T,
                              bounds="value -3..3; subscripts written as number literals next to the same numbers held in host variables",
                              desc=f"eval({text!r}): literal subscripts are cast like any other key / index"))
    return {
        "obligations": obs,
        "explanation": "CrossHair (z3): one container operation through SqParser.eval (sugar lowered by the real parser) from an arbitrary "
                       "small container, compared with the sequence/map model in spec/container_model.py (written from the property text).",
        "functions": ["smartquery.functions._get_item/_set/_set_with_op/_del/_get/_push/_pop/_insert/_remove/_index_of/keys/values",
                      "smartquery.ast_ops.DictOp.eval", "lowering actions in smartquery.rules"],
        "files": ["smartquery/functions.py", "smartquery/ast_ops.py", "smartquery/rules.py"],
        "bounds": "lists <= 4, dicts <= 3 entries; indices -6..6; one operation per obligation",
        "outside": "operation sequences: containers are plain Python lists/dicts without hidden representation state, so one step from "
                   "an arbitrary container covers every sequence (argument, not mechanised)",
        "stubs": [],
        "assumptions": ["CrossHair's models of list/dict/str/int"],
        "trusted": ["CrossHair 0.0.110", "z3", "spec/container_model.py"],
    }
