import sys, os; sys.path.insert(0, os.getcwd())

import smartquery
from smartquery import SqParser, ParserError

assert smartquery.__file__.startswith(os.getcwd()), smartquery.__file__

parser = SqParser()


def attempt(f, *args):
    """Host callback: call f, swallow any error and let the program continue."""
    try:
        return f(*args)
    except Exception:
        return 'failed'


# 1) a lambda call that raises under a catching host callback: its parameter must be gone
#    afterwards and later top-level assignments must still reach the host's mapping
names = {'attempt': attempt, 'v': 'host'}
res = parser.eval(
    '''
    r = attempt(v => v + undefined_name, 7)
    y = 5
    [r, v, y]
    ''',
    names=names,
)
assert res == ['failed', 'host', 5], ('parameter of a failed call still visible', res)
assert names.get('r') == 'failed', ('top-level assignment not written to host names', sorted(names))
assert names.get('y') == 5, ('top-level assignment not written to host names', sorted(names))
assert names['v'] == 'host'

# 2) same with the error raised inside map(); the name is not bound anywhere else,
#    so it has to be undefined once the failed call is over
names = {'attempt': attempt}
try:
    parser.eval(
        '''
        attempt(xs => xs | map(e => e / 0), [1, 2])
        xs
        ''',
        names=names,
    )
except ParserError:
    pass
else:
    raise AssertionError('parameter xs of a failed lambda call leaked into the top level')

# 3) a builtin shadowed by the parameter of a failed call must be the builtin again
names = {'attempt': attempt}
res = parser.eval(
    '''
    attempt(len => len(1), 3)
    total = len([1, 2, 3])
    total
    ''',
    names=names,
)
assert res == 3, res
assert names.get('total') == 3, ('top-level assignment not written to host names', sorted(names))

print('ok')
