import sys, os; sys.path.insert(0, os.getcwd())

import smartquery
from smartquery import SqParser
from smartquery.exceptions import ParserError

assert smartquery.__file__.startswith(os.getcwd()), smartquery.__file__

p = SqParser()

# Dict keys are cast with str(): 1 -> '1' but 1.0 -> '1.0' and 0.5 * 2 -> '1.0' (exact decimals keep
# their scale).  The cast of a key must not depend on which numerically-equal key was cast before.

# 1. within one program: the literal stores under '2.50', the lookup d[2.5] is a Key error
names = {}
try:
    got = p.eval("d = {2.50: 'a'}\nd[2.5]", names=names)
except ParserError:
    pass
else:
    raise AssertionError(('expected ParserError (key 2.5 absent)', got))
assert names['d'] == {'2.50': 'a'}, names

# 2. across calls (and parser instances): an earlier program used 7.0 as a key ...
assert p.eval("keys({7.0: 'x'})", names={}) == ['7.0']
# ... a later, unrelated one uses 7
q = SqParser()
names = {'d': {}}
res = q.eval("d[7] = 'seven'\nd[14 / 2] = 'again'\nkeys(d)", names=names)
assert res == ['7'], res
assert names['d'] == {'7': 'again'}, names

# 3. arithmetic results: 0.5 * 2 == 1.0 -> '1.0', then a plain 1 -> '1'
names = {}
res = p.eval("d = {}\nd[0.5 * 2] = 'p'\nd[1] = 'q'\nlen(d)", names=names)
assert res == 2 and names['d'] == {'1.0': 'p', '1': 'q'}, (res, names)
print('ok')
