from sqv.driver import Obligation
from sqv import nodes

ANCHORED = {'len', 'int', 'float', 'str', 'dict', 'list', 'startswith', 'endswith', 'lower', 'upper', 'strip', 'replace', 'match',
            'match_groups', 'match_all', 'pretty', 'keys', 'values', 'items', 'sum', 'get', '__getitem__', '__delitem__', '__setitem__',
            '__setitem_with_op__', 'map', 'filter', 'reduce', 'join', 'split', 'round', 'floor', 'ceil', 'abs', 'min', 'max', 'rand', 'push',
            'pop', 'insert', 'remove', 'sorted', 'reversed', 'enumerate', 'shuffle', 'index_of'}
MUT_SHAPES = {'push': ['LI', 'LN', 'LC'], 'pop': ['L', 'LZ', 'DS', 'DX', 'DXZ', 'LX'], 'insert': ['LZI', 'LZY'], 'remove': ['LI', 'DS'], '__setitem__': ['LZI', 'DSN', 'DAC'],
              '__setitem_with_op__': ['LZSI'], '__delitem__': ['LZ', 'DS']}


def plan(ctx):
    quick = ctx["tier"] == "quick"
    T = 40 if quick else 240
    from sqv.harness import c02 as h, c13
    from smartquery.functions import FUNCTIONS
    obs, uncovered = [], []
    extra_names = sorted(set(FUNCTIONS) - ANCHORED)
    for nme in extra_names:
        uncovered.append(f"function table exposes {nme!r}, which the property's anchor does not list: only generic argument shapes were tried")
    for name in sorted(FUNCTIONS):
        shapes = list(c13.SHAPES.get(name, [])) + list(h.EXTRA_SHAPES.get(name, [])) + list(MUT_SHAPES.get(name, []))
        # rarely used extra arguments: a codec-like / option-like string after the usual ones
        shapes += [sh + 'O' for sh in (c13.SHAPES.get(name, []) or ['S'])[:2]] + ['SO', 'SOO']
        # ... or a dict / list of the program's own, where a builtin might leave something behind
        shapes += [sh + k for sh in (c13.SHAPES.get(name, []) or ['S'])[:2] for k in 'yz'] + ['SSy', 'SSSy', 'SSSz', 'SSz']
        if not shapes:
            shapes = c13.GENERIC + ['A', 'T', 'LC']
        for sh in shapes:
            if 'H' in sh:
                continue
            obs.append(Obligation(f"fn.{name}.{sh or 'noargs'}", "xh", "c02", "closure_step", param={"fn": name, "shape": sh}, timeout=T,
                                  bounds="plain arguments: lists 0..3 of symbolic ints, nested lists, dicts, tuples, attribute-like and format-like strings, builtins and lambdas in callable positions",
                                  desc=f"FUNCTIONS[{name!r}] shape {sh!r}: result (deep type walk) is plain data / a builtin / a lambda, or an Exception; arguments stay plain"))
    for name in sorted(FUNCTIONS):
        obs.append(Obligation(f"on_builtins.{name}", "xh", "c02", "builtin_on_builtin", param={"fn": name}, timeout=T * 2,
                              bounds="first argument: every value of the function table (index symbolic); shapes f(g), f(g, 1), f(g, 'a'), f(g, g), f([g], 0)",
                              desc=f"FUNCTIONS[{name!r}] applied to the builtins themselves yields plain data / a builtin / a lambda, or raises"))
    for p in nodes.kind_params():
        if p["op"] not in (None, '+', 'and', '-', '+=', 'not'):
            continue
        oid = f"node.{p['kind']}" + (f".{p['op']}" if p['op'] else "")
        obs.append(Obligation(oid, "xh", "c02", "node_step", param=p, timeout=T,
                              bounds="children return ints / a list / a str; the node's name from 6 spellings incl. attribute paths (%x.__class__%, %f.__globals__%)",
                              desc="every node kind maps plain child results to plain results; nothing non-plain is stored"))
    for i, text in enumerate(h.IO_TEMPLATES):
        obs.append(Obligation(f"no_io.t{i}", "xh", "c02", "api_no_io", param={"io": i}, timeout=T, bounds="concrete failing / succeeding program; evaluated once or twice",
                              desc=f"eval({text!r}): no open / os / socket / subprocess / import / exec / compile audit events, also on the error path"))
    for i, text in enumerate(h.TEMPLATES):
        obs.append(Obligation(f"api.t{i}", "xh", "c02", "api_plain", param={"t": i}, timeout=T, bounds="host ints symbolic",
                              desc=f"eval({text!r}): result and names are plain"))
    return {
        "obligations": obs, "uncovered": uncovered,
        "explanation": "CrossHair (z3): closure of plain data under every entry of the real function table (enumerated at run time and "
                       "compared with the anchored set) and under every node kind, plus attribute-/format-like templates through "
                       "SqParser.eval; every explored path runs behind CrossHair's audit wall (file, socket, process, import, exec events raise).",
        "functions": ["every value of smartquery.functions.FUNCTIONS", "smartquery.ast_ops.*.eval"],
        "files": ["smartquery/functions.py", "smartquery/rules.py", "smartquery/ast_ops.py", "smartquery/lexer.py"],
        "bounds": "argument shapes from a table (lists <= 3, fixed nested shapes); result TYPES depend on argument types and emptiness, not magnitudes",
        "outside": "behaviour of C builtins is CrossHair's model of them; regex builtins run the real engine only on concrete strings",
        "stubs": ["random contract stub"],
        "assumptions": ["structural induction: node step + builtin closure step give 'no program obtains anything else'"],
        "trusted": ["CrossHair 0.0.110 (incl. its audit wall)", "z3"],
    }
