import sys, os; sys.path.insert(0, os.getcwd())

import smartquery
from smartquery import SqParser
from smartquery.ast_ops import LambdaOp, NameOp

assert smartquery.__file__.startswith(os.getcwd()), smartquery.__file__

parser = SqParser()

# A host-supplied AST function (ast_names) whose body makes a local assignment.
# Locals of a lambda call must vanish when the call returns and must never
# alter a host binding of the same name.
body = parser.parse('t = 10\nt * 2')

# 1) a function declared without parameters, called as f()
f0 = LambdaOp(args=[], expr=body)
names = {'t': 1}
res = parser.eval('r = f()\nr + t', names=names, ast_names={'f': f0})
assert res == 21, ('local assignment leaked into the host binding', res)
assert names['t'] == 1, ('host binding altered by a lambda-local assignment', names['t'])

# 2) host has no binding of that name: the local must not appear in the host mapping
names = {}
assert parser.eval('f()', names=names, ast_names={'f': f0}) == 20
assert 't' not in names, ('lambda local written to host names', names)

# 3) a function with a declared parameter that is called with no argument at all
f1 = LambdaOp(args=[NameOp('a')], expr=body)
names = {'t': 'host'}
assert parser.eval('f()', names=names, ast_names={'f': f1}) == 20
assert names['t'] == 'host', ('host binding altered', names['t'])

# 4) nested: a zero-argument call made from inside another lambda call must not
#    overwrite the caller's parameter of the same name
names = {}
res = parser.eval('[5] | map(t => f() + t)', names=names, ast_names={'f': f0})
assert res == [25], ("inner call's local overwrote the caller's parameter", res)

print('ok')
