import sys, os; sys.path.insert(0, os.getcwd())

import smartquery
from smartquery import SqParser

assert smartquery.__file__.startswith(os.getcwd()), smartquery.__file__

IMPLICIT = {'list', 'dict', '__getitem__', '__setitem__', '__delitem__', '__setitem_with_op__'}


class Host(dict):
    """names mapping that records every key the evaluator asks it for"""

    def __init__(self, *a, **kw):
        super().__init__(*a, **kw)
        self.asked = []

    def __contains__(self, k):
        self.asked.append(k)
        return super().__contains__(k)

    def __getitem__(self, k):
        self.asked.append(k)
        return super().__getitem__(k)


def check(parser, source, values):
    announced = list(parser.list_names(source))
    host = Host(values)
    result = parser.eval(source, names=host)
    stray = [n for n in host.asked if n not in announced and n not in IMPLICIT]
    assert not stray, f'eval({source!r}) asked the host for {stray}, list_names announced only {announced}'
    return result


values = {'%order total%': 10, '%order  total%': 20, '%order\ttotal%': 30}

parser = SqParser(parse_cache={})

# three different %...% names: one blank, two blanks, a tab
assert check(parser, '%order  total% + 1', values) == 21
assert check(parser, '%order total% + 1', values) == 11
assert check(parser, '%order\ttotal% + 1', values) == 31

# a host that only supplies what list_names announced must be enough
src = '%order total% * 2'
parser.eval('%order  total% * 2', names=dict(values))          # earlier call, other source
only_announced = {n: values[n] for n in parser.list_names(src)}
assert parser.eval(src, names=only_announced) == 20

print('ok')
