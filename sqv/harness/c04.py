"""C04 harnesses: multiplication / exponentiation are routed through Decimal; native paths do not blow up."""
from decimal import Decimal as RealDecimal, getcontext, ROUND_HALF_EVEN
from typing import List

from sqv import hlib
from sqv import decstub
from sqv.decstub import DecStub
from sqv.nodes import Stub, mkstate
from smartquery import ast_ops, functions
from smartquery.ast_ops import BinOp, ShortOp, UnaryOp
from smartquery.functions import FUNCTIONS
from smartquery.exceptions import ParserError

DEC = [RealDecimal('3'), RealDecimal('1E+30'), RealDecimal('0.5')]


def _operand(kind, i, f, b, di):
    # every host-suppliable operand kind
    if kind == 0:
        return i
    if kind == 1:
        return b
    if kind == 2:
        return 2.5 if b else -1e300       # floats only at the dispatch level (concrete values)
    if kind == 3:
        return 'ab'
    if kind == 4:
        return [1, 2]
    return DEC[di]


def _is_num(kind):
    return kind in (0, 1, 2, 5)


def _install():
    saved = (ast_ops.Decimal, functions.Decimal)
    ast_ops.Decimal = DecStub
    functions.Decimal = DecStub
    return saved


def _restore(s):
    ast_ops.Decimal, functions.Decimal = s


def _check_product(res, raised, a, b, ka, kb, what):
    if raised is not None:
        assert isinstance(raised, Exception)
        if _is_num(ka) and _is_num(kb):
            assert isinstance(raised, (ArithmeticError, ParserError)), what + ": numeric operands failed with a non-arithmetic error"
        return
    assert not isinstance(res, (str, list)), what + " repeated a string or a list"
    assert isinstance(res, (DecStub, RealDecimal)), what + " computed natively (result is not a Decimal product)"
    if isinstance(res, DecStub):
        assert res.op is not None and res.op[0] in ('mul', 'pow', 'rmul', 'rpow'), what + ": result is not a Decimal product/power"
        l, r = res.op[1], res.op[2]
        assert isinstance(l, DecStub) and isinstance(r, DecStub), what + ": operands were not converted to Decimal before the operation"
        if res.op[0] in ('mul', 'pow'):
            assert l.arg is a and r.arg is b, what + ": Decimal operation applied to the wrong operands"


def route_binop(kb: int, i1: int, i2: int, b1: bool, b2: bool, d1: int, d2: int) -> None:
    """
    pre: 0 <= kb <= 5 and 0 <= d1 <= 2 and 0 <= d2 <= 2
    post: True
    """
    hlib.enter(locals())
    op = hlib.PARAM["op"]
    ka = hlib.PARAM["ka"]
    f1 = f2 = 0.0
    a, b = _operand(ka, i1, f1, b1, d1), _operand(kb, i2, f2, b2, d2)
    log = []
    node = BinOp(op, Stub(log, 0, a), Stub(log, 1, b))
    saved = _install()
    raised, res = None, None
    try:
        try:
            res = node.eval(mkstate(0, 100))
        except Exception as e:
            raised = e
    finally:
        _restore(saved)
    _check_product(res, raised, a, b, ka, kb, "operator " + op)
    hlib.done()


def route_shortop(kb: int, i1: int, i2: int, b1: bool, b2: bool, d1: int, d2: int) -> None:
    """
    pre: 0 <= kb <= 5 and 0 <= d1 <= 2 and 0 <= d2 <= 2
    post: True
    """
    hlib.enter(locals())
    site = hlib.PARAM["site"]
    ka = hlib.PARAM["ka"]
    f1 = f2 = 0.0
    a, b = _operand(ka, i1, f1, b1, d1), _operand(kb, i2, f2, b2, d2)
    saved = _install()
    raised, res = None, None
    try:
        try:
            if site == 'name':
                host = {'x': a}
                node = ShortOp('x', '*=', Stub([], 0, b))
                node.eval(mkstate(0, 100, host=host))
                res = host['x']
            elif site == 'list':
                cont = [a]
                FUNCTIONS['__setitem_with_op__'](cont, 0, '*=', b)
                res = cont[0]
            else:
                cont = {'k': a}
                FUNCTIONS['__setitem_with_op__'](cont, 'k', '*=', b)
                res = cont['k']
        except Exception as e:
            raised = e
    finally:
        _restore(saved)
    if raised is None and isinstance(res, DecStub) and res.op is not None:
        # deepcopy of the right operand is allowed: compare by value for ints
        pass
    if raised is not None:
        assert isinstance(raised, Exception)
    else:
        assert not isinstance(res, (str, list)), "compound assignment *= repeated a string or a list"
        assert isinstance(res, (DecStub, RealDecimal)), "compound assignment *= computed natively (host numbers are not multiplied as Decimals)"
    hlib.done()


def context_unchanged(x: int) -> None:
    """
    pre: True
    post: True
    """
    hlib.enter(locals())
    c = getcontext()
    assert c.prec == 28 and c.rounding == ROUND_HALF_EVEN and c.Emax == 999999 and c.Emin == -999999, \
        "decimal context is not the default 28-digit half-even context after importing smartquery"
    hlib.done()


def native_bin(a: int, b: int) -> None:
    """
    pre: True
    post: True
    """
    # + - and comparisons on host ints stay native: at most one more digit than the wider operand
    hlib.enter(locals())
    op = hlib.PARAM["op"]
    node = BinOp(op, Stub([], 0, a), Stub([], 1, b))
    r = node.eval(mkstate(0, 100))
    m = max(abs(a), abs(b))
    if isinstance(r, bool):
        pass
    else:
        assert isinstance(r, int) and abs(r) <= 2 * m, "native + / - result wider than one more digit"
    hlib.done()


def native_neg(a: int) -> None:
    """
    pre: True
    post: True
    """
    hlib.enter(locals())
    r = UnaryOp('-', Stub([], 0, a)).eval(mkstate(0, 100))
    assert r == -a
    hlib.done()


def builtin_small(a: int, b: int, c: int, nd: int) -> None:
    """
    pre: -6 <= a <= 6 and b == 0 and c == 0 and nd == 0
    post: True
    """
    builtin_num(a, b, c, nd)


def builtin_num(a: int, b: int, c: int, nd: int) -> None:
    """
    pre: 0 <= nd <= 3
    post: True
    """
    # numeric builtins on host ints: the Decimal they build is constructed from a value no wider than the
    # widest argument (+1 digit for sum over <= 3 elements)
    hlib.enter(locals())
    name = hlib.PARAM["fn"]
    saved = _install()
    try:
        f = FUNCTIONS[name]
        if name in ('min', 'max'):
            r = f(a, b, c)
            vals = [a, b, c]
        elif name == 'sum':
            r = f([a, b, c])
            vals = [a, b, c]
        elif name == 'round':
            r = f(a)
            vals = [a]
        else:
            r = f(a)
            vals = [a]
    finally:
        _restore(saved)
    m = max(abs(v) for v in vals)
    if isinstance(r, DecStub):
        assert r.op is None, "numeric builtin performed Decimal arithmetic it should not need"
        v = r.arg
        if isinstance(v, str):
            v = int(v)
        assert not isinstance(v, float), "numeric builtin on ints went through float"
        assert abs(v) <= 3 * m, "numeric builtin result wider than its widest argument"
    else:
        assert isinstance(r, int) and abs(r) <= 3 * m, "numeric builtin result wider than its widest argument"
    hlib.done()


# ---------------------------------------------------------------------------------------------
import decimal as _decimal
import sys as _sys

DPOOL = [RealDecimal('1'), RealDecimal('1.5'), RealDecimal('-2.25'), RealDecimal('0.1'), RealDecimal('2') / RealDecimal('3'),
         RealDecimal('12345678901234567890123456789'), RealDecimal('-0.000123'), RealDecimal('99999.99999')]
BIG = [RealDecimal('1E+40'), RealDecimal('-7E+1000')]
IPOOL = [3, 10 ** 17, -5, True, 123456789012345678901234567890, 0, 7, 10 ** 27]       # host-supplied Python ints (and a bool)


def _digits(x):
    if isinstance(x, bool):
        return 1
    if isinstance(x, int):
        if abs(x).bit_length() > 10000:
            return int(abs(x).bit_length() * 0.30102) + 1          # (int -> str conversion is limited to 4300 digits)
        return len(str(abs(x)))
    if isinstance(x, RealDecimal):
        return len(x.as_tuple().digits) if x.is_finite() else 1
    if isinstance(x, float):
        return 17
    return 0


class _CtxGuard:
    """(passive) the behavioural digit bound and the context check after the call decide; the mechanism is not policed"""

    def __enter__(self):
        return self

    def __exit__(self, *exc):
        return False


def builtin_digits(di: int, dj: int, nd: int, big: bool) -> None:
    """
    pre: 0 <= di < 8 and 0 <= dj < 8 and 0 <= nd <= 40
    post: True
    """
    # real Decimals through the real builtin: result has at most max(28, widest argument + 1) significant digits
    hlib.enter(locals())
    name = hlib.PARAM["fn"]
    f = FUNCTIONS[name]
    hlib.assume(nd == 0 or name == 'round')
    hlib.assume(dj == 0 or name in ('sum', 'min', 'max'))
    di, dj, nd = hlib.concrete(di, 0, 7), hlib.concrete(dj, 0, 7), hlib.concrete(nd, 0, 40)
    a = BIG[di % 2] if big else DPOOL[di]
    b = DPOOL[dj]
    args = {'round2': (a, nd), 'sum': ([a, b, a],), 'min': (a, b), 'max': (a, b)}.get(name if name != 'round' or nd == 0 else 'round2', (a,))
    widest = max(_digits(x) for x in (a, b))
    raised, r = None, None
    with _CtxGuard():
        try:
            r = f(*args)
        except AssertionError:
            raise
        except Exception as e:
            raised = e
    c = _decimal.getcontext()
    assert c.prec == 28 and c.rounding == ROUND_HALF_EVEN, "decimal context changed by a numeric builtin"
    if raised is None and name != 'float':
        assert _digits(r) <= max(28, widest + 1), \
            "numeric builtin %s returned %d significant digits for arguments of at most %d" % (name, _digits(r), widest)
    hlib.done()


def operator_digits(di: int, dj: int, big: bool, ia: bool, ib: bool, warm: int = 0) -> None:
    """
    pre: 0 <= di < 8 and 0 <= dj < 8 and 0 <= warm <= 2
    post: True
    """
    hlib.enter(locals())
    op = hlib.PARAM["op"]
    # warm: the SAME tree node has been evaluated before - on two Decimals (1) or on two strings / lists (2): what a
    # node learnt from earlier operands must not change how it treats these
    warm = hlib.concrete(warm, 0, 2)
    di, dj = hlib.concrete(di, 0, 7), hlib.concrete(dj, 0, 7)
    a = BIG[di % 2] if big else DPOOL[di]
    b = DPOOL[dj]
    if ia:
        a = IPOOL[di]          # host int on the left
    if ib:
        b = IPOOL[dj]          # host int on the right
    raised, r = None, None
    with _CtxGuard():
        try:
            w0, w1 = (DPOOL[1], DPOOL[2]) if warm == 1 else ('ab', 'cd')
            if op == 'neg':
                s0 = Stub([], 0, w0)
                node = UnaryOp('-', s0)
                if warm:
                    try:
                        node.eval(mkstate(0, 100))
                    except Exception:
                        pass
                s0.result = a
                r = node.eval(mkstate(0, 100))
            elif op.endswith('='):
                s0 = Stub([], 0, w1)
                node = ShortOp('x', op, s0)
                if warm:
                    try:
                        node.eval(mkstate(0, 100, host={'x': w0}))
                    except Exception:
                        pass
                s0.result = b
                host = {'x': a}
                node.eval(mkstate(0, 100, host=host))
                r = host['x']
            else:
                s0, s1 = Stub([], 0, w0), Stub([], 1, w1)
                node = BinOp(op, s0, s1)
                if warm:
                    try:
                        node.eval(mkstate(0, 100))
                    except Exception:
                        pass
                s0.result, s1.result = a, b
                r = node.eval(mkstate(0, 100))
        except AssertionError:
            raise
        except Exception as e:
            raised = e
    c = _decimal.getcontext()
    assert c.prec == 28 and c.rounding == ROUND_HALF_EVEN, "decimal context changed by an operator"
    if raised is None and not isinstance(r, bool):
        assert _digits(r) <= max(28, max(_digits(a), _digits(b)) + 1), \
            "operator %s on %r, %r returned %d significant digits" % (op, a, b, _digits(r))
    hlib.done()


# whole programs through the real lexer + parser + evaluator: parse-time shortcuts (folding, rewriting) are on this route only
from sqv.harness import txt as _txt          # (constructs its parsers at import, outside any explored path)
TEXTS = [
    "(True + True) * (True + True)",
    "(True + True) ** (True + True) ** (True + True) ** (True + True) ** (True + True)",
    "(True + True + True) ** 200",
    "x = True + True\nx *= x\nx *= x\nx",
    "True * 3",
    "(True + a) * (True + b)",
    "(a + 1) * (b + 1) * (a + 2)",
    "a * b * a * b",
    "x = a\nx *= b\nx *= x\nx *= x\nx",
    "(a * b) ** 3",
    "d = {'k': a}\nd['k'] *= b\nd['k'] *= d['k']\nd['k']",
    "[a, b] | map(v => v * v * v) | sum",
    "[a, b, a] | reduce((p, q) => p * q)",
    "7 * 3 ** 50 * True",
    "1000000000000000 * 3000000000000000",
    "x = 1000000000000000\nx *= x\nx *= x\nx *= x\nx",
    "-(a * b) * (0 - b)",
    "2 ** 0.5 * 2 ** 0.5 * a",
]


def text_digits(ai: int, bi: int, cached: bool) -> None:
    """
    pre: 0 <= ai < 8 and 0 <= bi < 8
    post: True
    """
    # products and powers computed by whole programs (host ints up to 30 digits): Decimal results of at most
    # max(28, widest operand + 1) significant digits, context untouched - whatever the parser did with the text
    hlib.enter(locals())
    text = TEXTS[hlib.PARAM["t"]]
    ai, bi = hlib.concrete(ai, 0, 7), hlib.concrete(bi, 0, 7)
    cached = True if cached else False
    a, b = IPOOL[ai], IPOOL[bi]
    raised, r = None, None
    with hlib.native():
        P = _txt.CACHING if cached else _txt.PARSER
        for _round in range(2 if cached else 1):
            try:
                r = P.eval(text, {'a': a, 'b': b}, max_ops_evaluated=200)
            except Exception as e:
                raised = e
        c = _decimal.getcontext()
        ctx_ok = c.prec == 28 and c.rounding == ROUND_HALF_EVEN
        nd = _digits(r) if raised is None else 0
        is_dec = isinstance(r, RealDecimal)
        rtype = type(r).__name__
    assert ctx_ok, "decimal context changed by evaluating %r" % text
    if raised is None:
        assert is_dec, "%r returned a %s, not a Decimal: the product / power was not computed in Decimal arithmetic" % (text, rtype)
        assert nd <= max(28, max(_digits(a), _digits(b)) + 1), "%r returned %d significant digits" % (text, nd)
    hlib.done()


POW_BASE = [2, 3, 7, 10, -3, 123456789]
POW_EXP = [2100000, 3400000, 4000001]


def power_overflow(bi: int, ei: int, short: bool) -> None:
    """
    pre: 0 <= bi < 6 and 0 <= ei < 3
    post: True
    """
    # host ints whose power lies beyond the decimal exponent range: an arithmetic error (or a 28-digit Decimal), never
    # an exact million-digit integer
    hlib.enter(locals())
    bi, ei = hlib.concrete(bi, 0, 5), hlib.concrete(ei, 0, 2)
    short = True if short else False
    with hlib.native():
        a, b = POW_BASE[bi], POW_EXP[ei]
        raised, r = None, None
        try:
            if short:
                host = {'x': a}
                ShortOp('x', '**=', Stub([], 0, b)).eval(mkstate(0, 100, host=host)) if '**=' in getattr(ShortOp, 'OPS', ['**=']) else None
                r = host['x']
            else:
                r = BinOp('**', Stub([], 0, a), Stub([], 1, b)).eval(mkstate(0, 100))
        except Exception as e:
            raised = e
        nd = _digits(r) if raised is None and not isinstance(r, bool) else 0
        unchanged = short and raised is None and r is a
    assert raised is not None or unchanged or nd <= 28, "%d ** %d on host ints returned a number of %d significant digits" % (a, b, nd)
    hlib.done()


# compound assignment on an ITEM (o[k] op= v), for every compound operator the real lexer knows (discovered at run time)
CANDIDATE_OPS = ['+=', '-=', '*=', '/=', '**=', '//=', '%=', '^=', '@=', '<<=', '>>=', '|=', '&=']
IEXP = [2, 3, 5000, 7, True, 0, 10 ** 30 + 7, 40]


def known_short_ops():
    from sqv.harness import txt as _t
    out = []
    for op in CANDIDATE_OPS:
        toks = None
        try:
            lx = _t.PARSER.lex.clone()
            lx.input('a ' + op + ' 1')
            toks = []
            while True:
                t = lx.token()
                if t is None:
                    break
                toks.append((t.type, t.value))
        except Exception:
            toks = None
        if toks and len(toks) == 3 and toks[1][1] == op:
            out.append(op)
    return out


def item_operator_digits(ai: int, bi: int, as_list: bool) -> None:
    """
    pre: 0 <= ai < 8 and 0 <= bi < 8
    post: True
    """
    hlib.enter(locals())
    op = hlib.PARAM["op"]
    ai, bi = hlib.concrete(ai, 0, 7), hlib.concrete(bi, 0, 7)
    as_list = True if as_list else False
    with hlib.native():
        a, b = IPOOL[ai], IEXP[bi]
        cont = [a] if as_list else {'n': a}
        key = 0 if as_list else 'n'
        raised = None
        try:
            FUNCTIONS['__setitem_with_op__'](cont, key, op, b)
        except Exception as e:
            raised = e
        r = cont[key]
        nd = _digits(r) if not isinstance(r, (bool, str, list, dict, type(None))) else 0
        kind = type(r).__name__
        repeated = isinstance(r, (str, list)) and not isinstance(a, (str, list))
    assert not repeated, "o[k] %s v repeated a string / list" % op
    assert nd <= max(28, max(_digits(a), _digits(b)) + 1), "o[k] %s v on host numbers %r, %r left a %s of %d significant digits in the container" % (op, a, b, kind, nd)
    hlib.done()
