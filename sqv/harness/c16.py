"""C16 harnesses: language-level failures are ParserErrors; nothing that is not an Exception escapes."""
from typing import List, Optional

from sqv import hlib
from sqv.nodes import build, mkstate, Tok
from smartquery import ast_ops, rules, lexer
from smartquery.exceptions import ParserError, OpsExecutionLimitExceededError as OpsLimit
from smartquery.functions import FUNCTIONS
from sqv.api import run_eval, prewarm

# runtime failures through the public API: (text, which failure kind)
RUNTIME = [
    ("u", "undefined variable"),
    ("u + 1", "undefined variable"),
    ("u(1)", "undefined function"),
    ("1 | u", "undefined function"),
    ("x.u(2)", "undefined function"),
    ("u += 1", "undefined name in compound assignment"),
    ("u -= 1", "undefined name in compound assignment"),
    ("u *= 1", "undefined name in compound assignment"),
    ("u /= 1", "undefined name in compound assignment"),
    ("f = v => u\nf(1)", "undefined variable in lambda"),
    ("d[k]", "missing key / index"),
    ("l[i]", "missing key / index"),
    ("d[k] += one", "missing key in compound index assignment"),
    ("l[i] += one", "missing index in compound index assignment"),
    ("l[i] = one", "not listed: index assignment out of range"),
    ("e.pop()", "pop from empty"),
    ("l.pop(i)", "pop out of range"),
    ("pop(e, i)", "pop from empty"),
    ("full.push(1)", "cap exceeded"),
    ("full[0] = 1", "cap exceeded"),
    ("insert(full, i, 1)", "cap exceeded"),
    ("x + x + x + x + x + x", "budget exceeded"),
    ("get(d, k)", "no failure: get on a missing key"),
    ("del d[k]", "no failure: del of a missing key"),
    ("del l[i]", "not listed: del of an out-of-range index"),
    # failures inside lambdas driven by higher-order builtins surface like any other
    ("sorted(l, v => u)", "undefined variable in a sort key"),
    ("l | sorted(v => d['zz'])", "missing key in a sort key"),
    ("sorted(d, (p, q) => u)", "undefined variable in a dict sort key"),
    ("sorted(l, v => l[9])", "missing index in a sort key"),
    ("sorted(l, v => nosuch(v), True)", "undefined function in a sort key"),
    ("l | map(v => u)", "undefined variable in map"),
    ("l | filter(v => e.pop())", "pop from empty in filter"),
    ("l | reduce((p, q) => u)", "undefined variable in reduce"),
    ("d | map((p, q) => d[q])", "missing key in map over a dict"),
    ("[l | sorted(v => u), 1][1]", "undefined variable in a sort key, result discarded"),
    ("y = for", "reserved word as an operand"),
    ("1 if def else 2", "reserved word in a condition"),
    ("break", "reserved word as a statement"),
    ("f(while)", "reserved word as an argument"),
    ("l | map(vv => vv * 2)\nvv", "lambda parameter read after the call"),
    ("l | map(ww => ww)\nww += 1", "lambda parameter in a compound assignment after the call"),
    ("l | filter(qq => qq)\nqq(1)", "lambda parameter called after the call"),
    ("f = pp => pp\nf(1)\n5 | pp", "lambda parameter piped into after the call"),
]
MUST_FAIL = {"u", "u + 1", "u(1)", "1 | u", "x.u(2)", "u += 1", "u -= 1", "u *= 1", "u /= 1", "f = v => u\nf(1)", "e.pop()", "pop(e, i)",
             "full.push(1)", "full[0] = 1", "insert(full, i, 1)"} | {t for t, k in RUNTIME[25:]}
if isinstance(hlib.PARAM, dict) and "t" in hlib.PARAM:
    prewarm(RUNTIME[hlib.PARAM["t"]][0])


def runtime_failure(k: str, i: int, n: int) -> None:
    """
    pre: len(k) <= 2 and 4 <= n <= 12 and -4 <= i <= 4
    post: True
    """
    hlib.enter(locals())
    text, kind = RUNTIME[hlib.PARAM["t"]]
    full = [0] * 10000
    names = {'x': 1, 'd': {'a': 1}, 'l': [1, 2], 'e': [], 'full': full, 'k': k, 'i': i, 'one': 1}
    out = run_eval(text, names, 50 if 'budget' not in kind else n)
    if out[0] == 'err' and not kind.startswith('not listed'):
        assert issubclass(out[1], ParserError), "language-level failure (%s) escaped as %s" % (kind, out[1].__name__)
    if text in MUST_FAIL:
        assert out[0] == 'err', "language-level failure (%s) was swallowed: %r returned %r" % (kind, text, out[1])
    hlib.done()


def ast_names_budget(n: int, a: int) -> None:
    """
    pre: 1 <= n <= 30
    post: True
    """
    # the op budget running out while a pre-parsed ast_names definition is evaluated is reported like any other overrun
    hlib.enter(locals())
    from sqv.api import CACHED
    definition = CACHED.parse("l | map(v => v + a) | sum")
    raised = None
    try:
        CACHED.eval("total + a", {'l': [a, a, a], 'a': a}, ast_names={'total': definition}, max_ops_evaluated=n)
    except Exception as e:
        raised = e
    except BaseException as e:          # noqa: a non-Exception escaping IS the violation
        if type(e).__module__.startswith('crosshair'):
            raise
        raise AssertionError("something that is not an ordinary Exception escaped from eval: %s" % type(e).__name__)
    if raised is not None:
        assert isinstance(raised, ParserError), "budget overrun inside ast_names escaped as %s" % type(raised).__name__
    hlib.done()


class _Tok:
    def __init__(self, type_, value, lineno, lexer_):
        self.type = type_
        self.value = value
        self.lineno = lineno
        self.lexpos = 0
        self.lexer = lexer_


class _Lexer:
    def __init__(self, lineno):
        self.lineno = lineno
        self.paren_count = 0


def p_error_any(has_tok: bool, value: str, tl: int, ll: int, number: bool) -> None:
    """
    pre: len(value) <= 3 and 1 <= tl <= 50 and 1 <= ll <= 50
    post: True
    """
    hlib.enter(locals())
    from smartquery.custom_types import Decimal
    # token values are strings for every token type except NUMBER (a Decimal)
    tok = (_Tok('NUMBER', Decimal('12.5'), tl, _Lexer(ll)) if number else _Tok('NAME', value, tl, _Lexer(ll))) if has_tok else None
    raised = None
    try:
        rules.p_error(tok)
    except Exception as e:
        raised = e
    assert isinstance(raised, ParserError), "p_error does not raise ParserError (token %s)" % ("present" if has_tok else "None = end of input")
    hlib.done()


ILLEGAL = ['\x00', '\r', '\x0c', '\x1b', '\x7f', '!', '?', '\xa0', '\u200b', '"', '%', '\ud800', '\U0010ffff', '$', '\\', '\x85', '~', '`']


def t_error_chars(ci: int, rest: str) -> None:
    """
    pre: 0 <= ci < 18 and len(rest) <= 2
    post: True
    """
    # concrete offending characters (control characters, unnamed and unassigned code points, lone surrogates)
    hlib.enter(locals())
    ch = ILLEGAL[hlib.concrete(ci, 0, 17)]
    raised = None
    try:
        lexer.t_error(_Tok('error', ch + 'ab', 1, _Lexer(1)))
    except Exception as e:
        raised = e
    assert isinstance(raised, ParserError), "t_error does not raise ParserError for %r" % ch
    hlib.done()


def t_error_any(value: str) -> None:
    """
    pre: 1 <= len(value) <= 3
    post: True
    """
    hlib.enter(locals())
    raised = None
    try:
        lexer.t_error(_Tok('error', value, 1, _Lexer(1)))
    except Exception as e:
        raised = e
    assert isinstance(raised, ParserError), "t_error does not raise ParserError"
    hlib.done()


class _P:
    """stand-in for a YaccProduction: p[i] indexing"""

    def __init__(self, items):
        self.items = items
        self.lexer = _Lexer(1)

    def __getitem__(self, i):
        return self.items[i]

    def __setitem__(self, i, v):
        self.items[i] = v

    def __len__(self):
        return len(self.items)


def reserved_word(value: str) -> None:
    """
    pre: len(value) <= 3
    post: True
    """
    hlib.enter(locals())
    raised = None
    try:
        rules.p_expression_reserved_unused(_P([None, value]))
    except Exception as e:
        raised = e
    assert isinstance(raised, ParserError), "reserved-word production does not raise ParserError"
    hlib.done()


def node_failure(nch: int, missing: bool) -> None:
    """
    pre: 0 <= nch <= 2
    post: True
    """
    # every node kind that reads a name: an unbound name is a ParserError (names mapping = real ScopedDict)
    hlib.enter(locals())
    kind, op = hlib.PARAM["kind"], hlib.PARAM["op"]
    log = []
    node, stubs = build(kind, op, log, [3, 4, 5, 6], nch, -1, value=7)
    host = {} if missing else {'x': 5}
    if kind == 'CallOp' and not missing:
        host['x'] = lambda *a: 0
    st = mkstate(0, 1000, host=host)
    raised = None
    try:
        node.eval(st)
    except Exception as e:
        raised = e
    if missing and raised is not None:
        assert isinstance(raised, ParserError), "unbound name escapes as %s" % type(raised).__name__
    if op == '@@':
        assert isinstance(raised, ParserError) or kind == 'UnaryOp', "unsupported operator is not a ParserError"
    hlib.done()
