import sys, os; sys.path.insert(0, os.getcwd())

import copy

import smartquery
from smartquery import SqParser

assert smartquery.__file__.startswith(os.getcwd()), smartquery.__file__

parser = SqParser()


def run(expr, names):
    """evaluate expr; whatever it returns or raises, the host's values must stay as they were"""
    before = copy.deepcopy(names)
    try:
        parser.eval(expr, names=names)
    except Exception:  # noqa: a list of separators is not supported on the original tree, that is fine
        pass
    assert names == before, f'{expr}: arguments changed: {before} -> {names}'


# ordinary forms
run('split(s)', {'s': 'a b c'})
run('s | split(", ", 1) | join("/")', {'s': 'a, b, c'})

# separators given as a list: already longest-first, then in the order a user would naturally write them
run('split(s, seps)', {'s': 'a, b;c', 'seps': [', ', ';']})
run('split(s, seps)', {'s': 'a, b;c,d', 'seps': [',', ';', ', ']})
run('s | split(seps, 1) | join("/")', {'s': 'a, b;c,d', 'seps': [';', ', ', ',']})

print('ok')
