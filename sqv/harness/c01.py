"""C01 harnesses: the op budget is enforced exactly on every evaluation path."""
from sqv import hlib
from sqv.nodes import *  # noqa
from sqv.nodes import Stub, StubRaise, Tok, build, mkstate
from smartquery import ast_ops
from smartquery.ast_ops import Op
from smartquery.exceptions import ParserError, OpsExecutionLimitExceededError as OpsLimit


def base_step(k: int, n: int) -> None:
    """
    pre: k >= 0 and n >= 1
    post: True
    """
    hlib.enter(locals())
    st = mkstate(k, n)
    node = ast_ops.NoOp()
    raised = None
    try:
        Op.eval(node, st)
    except Exception as e:
        raised = e
    assert st.ops_evaluated == k + 1, "counter not incremented by exactly one"
    assert st.max_ops_evaluated == n, "budget changed"
    if k + 1 >= n:
        assert type(raised) is OpsLimit and isinstance(raised, ParserError), "no ops-limit error at the N-th op"
    else:
        assert raised is None, "ops-limit error before the budget is reached"
    hlib.done()


def _hostf(*a):
    return len(a)


def node_step(k: int, n: int, nch: int, r0: bool, r1: bool, r2: bool, r3: bool, fail: int, calls: int) -> None:
    """
    pre: k >= 0 and n >= 1 and 0 <= nch <= 2 and -1 <= fail <= 3 and 0 <= calls <= 2
    post: True
    """
    hlib.enter(locals())
    kind, op = hlib.PARAM["kind"], hlib.PARAM["op"]
    log = []
    node, stubs = build(kind, op, log, [Tok(r0), Tok(r1), Tok(r2), Tok(r3)], nch, fail, value=7)
    host = {'x': 5}
    st = mkstate(k, n, host=host, functions={'x': _hostf})
    if kind == 'CallOp':
        host['x'] = _hostf
    raised = None
    res = None
    try:
        res = node.eval(st)
        if kind == 'LambdaOp':
            for _ in range(calls):
                res(1, 2)
    except Exception as e:
        raised = e
    enters = [e for e in log if e[0] == 'enter']
    assert st.max_ops_evaluated == n, "budget changed"
    if k + 1 >= n:
        assert type(raised) is OpsLimit, "node started although the budget was exhausted"
        assert log == [], "child evaluated before the node's own charge"
        assert host == {'x': _hostf if kind == 'CallOp' else 5}, "effect before the charge"
        assert st.ops_evaluated == k + 1
    else:
        # every child evaluation entered charges exactly one op, the node itself one, nothing else, no reset
        assert st.ops_evaluated == k + 1 + len(enters), "counter != own charge + child evaluations"
        for j, e in enumerate(enters):
            assert e[2] == k + 1 + j, "child saw a counter that does not include the node's own charge"
        assert (type(raised) is OpsLimit) == (st.ops_evaluated >= n), "ops-limit error iff the counter reached N"
    assert len(st.names.scopes) == 2, "scope stack not restored"
    hlib.done()
