import sys, os; sys.path.insert(0, os.getcwd())

import smartquery
from smartquery import SqParser
from smartquery.ast_ops import LambdaOp, NameOp

assert smartquery.__file__.startswith(os.getcwd()), smartquery.__file__

parser = SqParser()

# a helper handed to the program as an AST (the ast_names argument of eval)
double = LambdaOp(args=[NameOp('v')], expr=parser.parse('v * 2'))

# baseline: without ast_names a top-level assignment is written to the host's mapping
host = {'n': 1}
parser.eval('total = n + 1', names=host)
assert host['total'] == 2, host

# the same with a derived name in play: top-level assignments (plain and compound)
# must still land in the host's names mapping
host = {'n': 20}
res = parser.eval('total = double(n) + 1\nn += 1\ntotal', names=host, ast_names={'double': double})
assert res == 41, res
assert host.get('total') == 41, f'top-level assignment not written back to the host: {sorted(host)}'
assert host['n'] == 21, f'top-level += not written back to the host: n == {host["n"]}'

# and a later eval over the same host mapping sees them
assert parser.eval('total + n', names=host) == 62

print('ok')
