"""Token-level obligations over the LRC chart (and the CFG chart of the same productions with the operator-table
filters).  Each query function gets (ctx) and returns a dict: verdict PROVED | CEX | INCONCLUSIVE, cex tokens, timings.
Run by sqv/z3_worker.py; counterexamples are replayed through the real lexer+parser by replay()."""
import time

import z3

from sqv import lrc
from sqv.lrc import END

LEVEL = {'OR': 1, 'AND': 2, 'EQ': 3, 'NE': 3, 'GT': 3, 'LT': 3, 'GTE': 3, 'LTE': 3, 'IN': 3, 'NOT IN': 3,
         'PLUS': 4, 'MINUS': 4, 'TIMES': 5, 'DIVIDE': 5, 'POWER': 6}
ASSOC = {1: 'left', 2: 'left', 3: 'nonassoc', 4: 'left', 5: 'left', 6: 'right'}

SLICES = {
    "full": None,
    "operators": ['NAME', 'OR', 'AND', 'EQ', 'NE', 'GT', 'LT', 'GTE', 'LTE', 'IN', 'NOT', 'PLUS', 'MINUS', 'TIMES', 'DIVIDE', 'POWER',
                  'IF', 'ELSE', 'LPAREN', 'RPAREN', 'DOT', 'PIPE', 'LBRACKET', 'RBRACKET', 'LAMBDA'],
    "brackets": ['NAME', 'COMMA', 'COLON', 'LAMBDA', 'DOT', 'PIPE', 'LPAREN', 'RPAREN', 'LBRACKET', 'RBRACKET', 'LBRACE', 'RBRACE'],
    "statements": ['NAME', 'NUMBER', 'ASSIGN', 'SHORT_OP', 'NEWLINE', 'DEL', 'PLUS', 'LBRACKET', 'RBRACKET'],
}


def alphabet_of(tables, name):
    base = [a for a in tables.terms if a not in ('COMMENT', END)]      # the lexer never emits COMMENT tokens
    if name == "full_noreserved":
        return [a for a in base if a not in lrc.RESERVED_UNUSED]    # reserved words always raise in their action
    if SLICES.get(name) is None:
        return base
    return [a for a in SLICES[name] if a in base]


def kind_of(prod):
    """syntactic kind of an expression production, from its shape"""
    rhs = prod["prod"]
    if prod["name"] != 'expression':
        return None
    if len(rhs) == 3 and rhs[0] == 'expression' and rhs[2] == 'expression':
        return ('bin', rhs[1])
    if len(rhs) == 4 and rhs[0] == 'expression' and rhs[1] == 'NOT' and rhs[2] == 'IN' and rhs[3] == 'expression':
        return ('bin', 'NOT IN')
    if rhs == ('MINUS', 'expression'):
        return ('uminus',)
    if rhs == ('NOT', 'expression'):
        return ('not',)
    if len(rhs) == 5 and rhs[0] == 'expression' and rhs[1] == 'IF':
        return ('ifexpr',)
    if 'LAMBDA' in rhs:
        return ('lambda',)
    if len(rhs) >= 3 and rhs[0] == 'expression' and rhs[1] in ('DOT', 'PIPE'):
        return ('suffix',)
    if len(rhs) >= 3 and rhs[0] == 'expression' and rhs[1] == 'LBRACKET':
        return ('index',)
    if rhs == ('LPAREN', 'expression', 'RPAREN'):
        return ('group',)
    return ('atom',)


def bad_child(parent, side, child):
    """does an UNPARENTHESISED child of this kind under this parent contradict the operator table of the property?"""
    pk, ck = parent[0], child[0]
    if pk == 'bin':
        lp = LEVEL.get(parent[1])
        if lp is None:
            return False
        if ck == 'bin':
            lc = LEVEL.get(child[1])
            if lc is None:
                return False
            if lc < lp:
                return True
            if lc == lp:
                a = ASSOC[lp]
                return a == 'nonassoc' or (a == 'left' and side == 'right') or (a == 'right' and side == 'left')
            return False
        if side == 'left' and ck in ('lambda', 'ifexpr'):
            return True          # they extend as far to the right as possible
        return False
    if pk in ('uminus', 'not'):
        return ck in ('bin', 'suffix', 'ifexpr')     # tighter than suffixes and every binary operator
    if pk == 'suffix' and side == 'left':
        return ck in ('bin', 'ifexpr', 'lambda')     # suffixes bind tighter than every binary operator
    if pk == 'ifexpr' and side == 'left':
        return ck in ('lambda', 'ifexpr')            # a lambda body / an else-branch extends as far to the right as possible
    if pk == 'index' and side == 'left':
        return ck in ('bin', 'ifexpr', 'lambda', 'uminus', 'not')   # indexing binds tighter than unary minus / not
    return False


class Ctx:
    def __init__(self, parser, L, slice_name="full", timeout=600):
        self.parser = parser
        self.T = lrc.Tables(parser)
        self.L = L
        self.alpha = alphabet_of(self.T, slice_name)
        self.timeout = timeout
        self.kinds = {i: kind_of(p) for i, p in enumerate(self.T.prods) if i > 0}


def _solve(constraints, timeout):
    tac = z3.Then('simplify', 'propagate-values', 'solve-eqs', 'bit-blast', 'sat')
    s = tac.solver()
    s.set("timeout", int(timeout * 1000))
    for c in constraints:
        s.add(c)
    t0 = time.time()
    r = s.check()
    return str(r), (s.model() if r == z3.sat else None), time.time() - t0, s


CUBE = None          # (index, total): this process only looks at strings whose first token falls into its share of the alphabet


def _cube_constraint(ch):
    if not CUBE:
        return []
    i, n = CUBE
    mine = [a for k, a in enumerate(ch.alphabet) if k % n == i]
    allowed = [ch.is_(0, a) for a in mine]
    if i == 0:
        allowed.append(ch.is_(0, END))
    return [z3.Or(allowed)]


CONFIRM = None          # optional predicate(tokens) -> bool: does the REAL parser confirm this witness?  (set per query by the worker)


def _finish(ch, goal, timeout, what, extra_charts=()):
    """twin: base constraints alone must be satisfiable; real: base + defs + goal"""
    t0 = time.time()
    cons = list(ch.base) + list(ch.defs) + _cube_constraint(ch)
    for c in extra_charts:
        cons += list(c.base) + list(c.defs)
    # vacuity twin: the constraints WITHOUT the negated property must be satisfiable (some string exists in the bounded space)
    rt, _, tsecs, _ = _solve(cons, min(timeout, 120))
    r, m, secs, _ = _solve(cons + [goal], timeout)
    tried = 0
    while r == 'sat' and CONFIRM is not None and tried < 60:
        # the chart only knows the tables; a grammar action may still raise.  Prefer a witness the real parser confirms:
        # unconfirmed witnesses are blocked and the solver is asked again (bounded)
        toks = lrc.concrete_tokens(ch, m)
        try:
            good = CONFIRM(toks)
        except Exception:
            good = True
        if good:
            break
        tried += 1
        block = z3.Or([ch.tok[j] != m.eval(ch.tok[j], model_completion=True) for j in range(ch.L + 1)])
        cons = cons + [block]
        r2, m2, secs2, _ = _solve(cons + [goal], timeout)
        secs += secs2
        if r2 != 'sat':
            if r2 == 'unsat':
                r, m = 'unsat', None          # every witness was a table-level artefact refused by an action: nothing real to report
            break
        r, m = r2, m2
    out = {"twin": rt, "unconfirmed_witnesses_blocked": tried, "twin_secs": round(tsecs, 2), "what": what, "L": ch.L, "alphabet": len(ch.alphabet), "cube": CUBE, "definitions": len(cons), "secs": round(secs, 2),
           "build_secs": None, "state": r}
    if r == 'unsat':
        out["verdict"] = "PROVED"
    elif r == 'sat':
        toks = lrc.concrete_tokens(ch, m)
        out["verdict"] = "CEX"
        out["cex"] = {"tokens": toks, "text": lrc.render(toks)}
        out["call"] = " ".join(toks)
        for k, c in enumerate(extra_charts):
            t2 = lrc.concrete_tokens(c, m)
            out["cex"][f"tokens{k + 2}"] = t2
            out["cex"][f"text{k + 2}"] = lrc.render(t2)
    else:
        out["verdict"] = "INCONCLUSIVE"
        out["why"] = "solver answered " + r
    return out


# --------------------------------------------------------------------------------------------------------------
def q_consistency(cx, excludes):
    """every token string is either accepted or stops with exactly one syntax error at a well-defined token"""
    ch = lrc.Chart(cx.T, cx.L, alphabet=cx.alpha)
    acc = ch.accept()
    errs = [ch.err_at(j) for j in range(cx.L + 1)]
    es = [e for e in errs if e is not None]
    two = [z3.And(errs[a], errs[b]) for a in range(cx.L + 1) for b in range(a + 1, cx.L + 1)
           if errs[a] is not None and errs[b] is not None]
    goal = z3.Or(z3.Not(z3.Xor(acc, z3.Or(es))), z3.Or(two) if two else z3.BoolVal(False))
    return _finish(ch, goal, cx.timeout, "accepted xor exactly one error configuration")


def q_error_token(cx, excludes):
    """the token handed to p_error has no viable continuation: no string sharing the prefix up to and including it is accepted"""
    a = lrc.Chart(cx.T, cx.L, name='a', alphabet=cx.alpha)
    b = lrc.Chart(cx.T, cx.L, name='b', alphabet=cx.alpha)
    accb = b.accept()
    alts = []
    for j in range(cx.L):
        e = a.err_at(j)
        if e is None:
            continue
        same = z3.And([a.tok[k] == b.tok[k] for k in range(j + 1)])
        alts.append(z3.And(e, same))
    goal = z3.And(z3.Or(alts), accb)
    return _finish(a, goal, cx.timeout, "error token still has an accepted continuation", extra_charts=(b,))


def _expr_red(ch, cx, q, i, k, kindpred):
    """an expression production whose kind satisfies kindpred is reduced over tok[i:k] directly above q"""
    alts = []
    for p in cx.T.by_lhs.get('expression', []):
        if not kindpred(cx.kinds[p]):
            continue
        n = cx.T.prods[p]["len"]
        qn = cx.T.path(q, p, n)
        if qn is None:
            continue
        alts.append(ch._and(ch.dot(q, p, n, i, k), ch.redok(qn, p, k)))
    return ch._or(alts)


def q_patterns(cx, excludes):
    """no accepted string contains a parent/child pair that contradicts the operator table (children unparenthesised)"""
    group = cx.group
    ch = lrc.Chart(cx.T, cx.L, alphabet=cx.alpha)
    acc = ch.accept()
    T = cx.T
    viol = []
    starts = [q for q in T.action if 'expression' in T.goto.get(q, {})]
    no_right_notin = "no_right_notin" in excludes
    for q in starts:
        for p in T.by_lhs['expression']:
            kind = cx.kinds[p]
            rhs = T.prods[p]["prod"]
            n = len(rhs)
            if kind[0] not in ('bin', 'uminus', 'not', 'suffix', 'index', 'ifexpr') or T.path(q, p, n) is None:
                continue
            # positions of expression children inside the production
            kids = [m for m, x in enumerate(rhs) if x == 'expression']
            for i in range(cx.L + 1):
                r = ch.reach(q, i)
                if r is None:
                    continue
                for j in range(i + 1, cx.L + 1):
                    whole = ch._and(r, ch.dot(q, p, n, i, j), ch.redok(T.path(q, p, n), p, j))
                    if whole is None:
                        continue
                    for idx, m in enumerate(kids):
                        side = 'left' if m == 0 else 'right'
                        if kind[0] in ('suffix', 'index', 'ifexpr') and m != 0:
                            continue
                        if group != 'all' and group != f"{kind[0]}-{side}":
                            continue

                        def pred(ck, kind=kind, side=side):
                            if no_right_notin and kind[0] in ('bin', 'not') and side == 'right' and ck == ('bin', 'NOT IN'):
                                return False
                            return bad_child(kind, side, ck)
                        qm = T.path(q, p, m)
                        if qm is None:
                            continue
                        # the child occupies tok[a:b] with dot(q,p,m,i,a) before it and the rest of the handle after it
                        for a in ([i] if m == 0 else range(i + 1, j)):
                            pre = ch.dot(q, p, m, i, a)
                            if pre is None:
                                continue
                            for b in ([j] if m == n - 1 else range(a + 1, j)):
                                post = ch.dot(q, p, m + 1, i, b)
                                if post is None:
                                    continue
                                bad = _expr_red(ch, cx, qm, a, b, pred)
                                if bad is None:
                                    continue
                                rest = _suffix_ok(ch, cx, q, p, m + 1, i, b, j)
                                viol.append(ch._and(whole, pre, bad, rest))
    viol = [v for v in viol if v is not None]
    goal = z3.And(acc, z3.Or(viol)) if viol else z3.BoolVal(False)
    return _finish(ch, goal, cx.timeout, f"operator-table pattern violated ({group})")


def _suffix_ok(ch, cx, q, p, m, i, b, j):
    """symbols m.. of production p are recognised over tok[b:j] given the first m over tok[i:b] (conjoined with dot(...,j) by the caller)"""
    # dot(q,p,n,i,j) already holds in the caller; what is needed is that the split at b is the one used, i.e.
    # dot(q,p,m,i,b) holds and the remaining symbols cover tok[b:j]: expressed through dot of the tail from the state reached
    T = cx.T
    rhs = T.prods[p]["prod"]
    n = len(rhs)
    if m == n:
        return True if b == j else None
    # recognise rhs[m:] from state path(q,p,m) over tok[b:j]
    return _tail(ch, cx, q, p, m, b, j)


def _tail(ch, cx, q, p, m, b, j, memo={}):
    T = cx.T
    rhs = T.prods[p]["prod"]
    n = len(rhs)
    key = (id(ch), q, p, m, b, j)
    if key in memo:
        return memo[key]
    if m == n:
        r = True if b == j else None
    else:
        X = rhs[m]
        qm = T.path(q, p, m)
        r = None
        if qm is not None and T.path(q, p, m + 1) is not None:
            if X in T.nonterms:
                alts = []
                for c in range(b, j + 1):
                    s = ch.sum(qm, X, b, c)
                    if s is None:
                        continue
                    alts.append(ch._and(s, _tail(ch, cx, q, p, m + 1, c, j)))
                r = ch._or(alts)
            elif b < j and b < ch.L:
                r = ch._and(ch.is_(b, X), _tail(ch, cx, q, p, m + 1, b + 1, j))
    memo[key] = r
    return r


# --------------------------------------------------------------------------------------------------------------
class Grammar:
    """a set of productions (reference grammar from spec/grammar_ref.json, or the checked tables' own)"""

    def __init__(self, prods):
        self.prods = [None] + [{"name": p["name"], "prod": tuple(p["prod"]), "len": len(p["prod"])} for p in prods]
        self.nonterms = sorted({p["name"] for p in self.prods[1:]})
        self.by_lhs = {}
        for i, p in enumerate(self.prods):
            if i:
                self.by_lhs.setdefault(p["name"], []).append(i)
        self.kinds = {i: kind_of(p) for i, p in enumerate(self.prods) if i}

    @classmethod
    def reference(cls):
        import json
        import os
        path = os.path.join(os.path.dirname(os.path.dirname(os.path.abspath(__file__))), "spec", "grammar_ref.json")
        return cls(json.load(open(path))["productions"])

    @classmethod
    def of_tables(cls, T):
        return cls([{"name": p["name"], "prod": p["prod"]} for p in T.prods[1:]])


class Cfg:
    """derivability in the grammar itself (productions as written in the rule docstrings), with the operator-table
    filters on parent/child kinds: D(A, kind, right_open, i, j).  An expression is RIGHT-OPEN when its right edge is an
    unparenthesised lambda or conditional expression ("extend as far to the right as possible"): such an expression
    cannot be the leftmost operand of a binary operator, suffix, index or conditional."""

    def __init__(self, cx, ch, filters=True, grammar=None):
        self.cx, self.ch = cx, ch
        self.G = grammar if grammar is not None else Grammar.reference()
        self.memo = {}
        self.busy = set()
        self.defs = []
        self.filters = filters

    def kinds_for(self, A):
        if A != 'expression':
            return [None]
        return sorted({self.G.kinds[p] for p in self.G.by_lhs['expression']}, key=str)

    def bad(self, parent, side, ck):
        if not self.filters:
            return False
        if parent[0] == 'bin' and side == 'right' and ck[0] == 'ifexpr':
            # IF is not in the operator table: a conditional is looser than every binary operator, so it is never the
            # unparenthesised right operand of one (only used to keep the REFERENCE strict; not demanded of the parser)
            return True
        return bad_child(parent, side, ck)

    def d(self, A, kind, ro, i, j):
        key = (A, kind, ro, i, j)
        if key in self.memo:
            return self.memo[key]
        if key in self.busy:
            return None
        self.busy.add(key)
        T = self.G
        alts = []
        for p in T.by_lhs.get(A, []):
            if A == 'expression':
                k = self.G.kinds[p]
                if k != kind:
                    continue
                if k[0] in ('lambda', 'ifexpr'):
                    if not ro:
                        continue
                    alts.append(self.seq(p, 0, i, j, None))
                elif k[0] in ('bin', 'uminus', 'not'):
                    alts.append(self.seq(p, 0, i, j, ro))
                else:
                    if ro:
                        continue
                    alts.append(self.seq(p, 0, i, j, None))
            else:
                alts.append(self.seq(p, 0, i, j, None))
        r = self.ch._or(alts)
        if r is not None and r is not True:
            v = z3.Bool(f"g_{A}_{kind}_{ro}_{i}_{j}".replace(' ', '').replace("'", ""))
            self.defs.append(v == r)
            r = v
        self.busy.discard(key)
        self.memo[key] = r
        return r

    def any_expr(self, i, j, allowed, ro=None):
        """some expression over tok[i:j] whose kind is allowed; ro: None = either, True/False = required right-openness"""
        alts = []
        for k in self.kinds_for('expression'):
            if not allowed(k):
                continue
            for r in ((True, False) if ro is None else (ro,)):
                alts.append(self.d('expression', k, r, i, j))
        return self.ch._or(alts)

    def seq(self, p, m, i, j, last_ro):
        """symbols m.. of production p derive tok[i:j]; last_ro: required right-openness of the LAST symbol if it is an expression"""
        key = ('seq', p, m, i, j, last_ro)
        if key in self.memo:
            return self.memo[key]
        T = self.G
        rhs = T.prods[p]["prod"]
        n = len(rhs)
        if m == n:
            r = True if i == j else None
        else:
            X = rhs[m]
            if X in T.nonterms:
                alts = []
                is_last = (m == n - 1)
                for k in range(i, j + 1):
                    if X == 'expression':
                        want_ro = last_ro if is_last else None
                        leftmost_operand = (m == 0 and T.prods[p]["name"] == 'expression' and n > 1) or \
                                           (m + 1 < n and rhs[m + 1] == 'LBRACKET')
                        if T.prods[p]["name"] == 'expression':
                            parent = self.G.kinds[p]
                            side = 'left' if m == 0 else 'right'
                            if parent[0] in ('suffix', 'index') and m != 0:
                                allowed = (lambda ck: True)
                            else:
                                allowed = (lambda ck, parent=parent, side=side: not self.bad(parent, side, ck))
                        elif m + 1 < n and rhs[m + 1] == 'LBRACKET':
                            # container of an index statement (del x[k], x[k] = v, x[k] += v): `[` binds like indexing
                            allowed = (lambda ck: not self.bad(('index',), 'left', ck))
                        else:
                            allowed = (lambda ck: True)
                        if leftmost_operand and self.filters:
                            want_ro = False          # cannot be followed by the rest of the production
                        sub = self.any_expr(i, k, allowed, want_ro)
                    else:
                        sub = self.d(X, None, None, i, k)
                    if sub is None:
                        continue
                    alts.append(self.ch._and(sub, self.seq(p, m + 1, k, j, last_ro)))
                r = self.ch._or(alts)
            elif i < j and i < self.ch.L and X != END:
                r = self.ch._and(self.ch.is_(i, X), self.seq(p, m + 1, i + 1, j, last_ro))
            else:
                r = None
        self.memo[key] = r
        return r

    def derives(self):
        alts = []
        for j in range(self.ch.L + 1):
            alts.append(self.ch._and(self.d('code', None, None, 0, j), self.ch.is_(j, END)))
        return self.ch._or(alts)


def q_completeness(cx, excludes):
    """every token string the REFERENCE grammar (spec/grammar_ref.json) derives with a tree that respects the operator table is accepted"""
    ch = lrc.Chart(cx.T, cx.L, alphabet=cx.alpha)
    acc = ch.accept()
    g = Cfg(cx, ch)
    der = g.derives()
    ch.defs.extend(g.defs)
    extra = []
    if "no_paren_name_lambda" in excludes:
        # known finding: ( NAME ) => ...
        for j in range(cx.L - 3):
            extra.append(z3.Not(z3.And(ch.is_(j, 'LPAREN'), ch.is_(j + 1, 'NAME'), ch.is_(j + 2, 'RPAREN'), ch.is_(j + 3, 'LAMBDA'))))
    if "no_dict_trailing_comma" in excludes:
        for j in range(cx.L - 1):
            extra.append(z3.Not(z3.And(ch.is_(j, 'COMMA'), ch.is_(j + 1, 'RBRACE'))))
    goal = z3.And([der if der is not None else z3.BoolVal(False), z3.Not(acc)] + extra)
    return _finish(ch, goal, cx.timeout, "derivable with an operator-table-respecting tree but rejected")


def q_soundness(cx, excludes):
    """every accepted token string is derivable in the REFERENCE grammar (spec/grammar_ref.json): nothing outside the published grammar is accepted"""
    ch = lrc.Chart(cx.T, cx.L, alphabet=cx.alpha)
    acc = ch.accept()
    g = Cfg(cx, ch, filters=False)          # plain CFG derivability
    der = g.derives()
    ch.defs.extend(g.defs)
    goal = z3.And(acc, z3.Not(der if der is not None else z3.BoolVal(False)))
    return _finish(ch, goal, cx.timeout, "accepted but not derivable in the grammar")


def _insert_link(a, b, c, inserted):
    """chart a's string = chart b's string with the tokens `inserted` (list of terminal names) put in before b's position c"""
    L = b.L
    n = len(inserted)
    cs = []
    for k in range(a.L + 1):
        if k < c:
            cs.append(a.tok[k] == b.tok[k] if k <= L else a.tok[k] == a.t.code[END])
        elif k < c + n:
            cs.append(a.is_(k, inserted[k - c]))
        else:
            src = k - n
            cs.append(a.tok[k] == b.tok[src] if src <= L else a.tok[k] == a.t.code[END])
    return z3.And(cs)


def _len_is(ch, n):
    """the string has exactly n tokens"""
    return z3.And(ch.is_(n, END), (ch.tok[n - 1] != ch.t.code[END]) if n > 0 else z3.BoolVal(True))


def q_rw_newline(cx, excludes):
    """blank statements are insignificant: inserting a separator at the start, at the end, or next to another separator keeps acceptance"""
    b = lrc.Chart(cx.T, cx.L, name='b', alphabet=cx.alpha)
    a = lrc.Chart(cx.T, cx.L + 1, name='a', alphabet=cx.alpha)
    accb, acca = b.accept(), a.accept()
    alts = []
    for c in range(cx.L + 1):
        where = [b.is_(c, END)]                       # at the end (or in the empty text)
        if c == 0:
            where.append(z3.BoolVal(True))
        if c > 0:
            where.append(b.is_(c - 1, 'NEWLINE'))
        where.append(b.is_(c, 'NEWLINE'))
        valid = z3.And(z3.Or(where), (b.tok[c - 1] != b.t.code[END]) if c > 0 else z3.BoolVal(True))
        alts.append(z3.And(valid, _insert_link(a, b, c, ['NEWLINE'])))
    goal = z3.And(z3.Or(alts), z3.Xor(acca, accb))
    return _finish(b, goal, cx.timeout, "an extra statement separator changes acceptance", extra_charts=(a,))


def q_rw_comma_removed(cx, excludes):
    """a comma directly before a closing bracket (not directly after an opening bracket or another comma) can be removed"""
    a = lrc.Chart(cx.T, cx.L, name='b', alphabet=cx.alpha)      # with the trailing comma (named b: it is the one reported)
    b = lrc.Chart(cx.T, cx.L, name='a', alphabet=cx.alpha)      # without
    acca, accb = a.accept(), b.accept()
    alts = []
    for c in range(1, cx.L - 1):
        cond = z3.And(a.is_(c, 'COMMA'), z3.Or(a.is_(c + 1, 'RPAREN'), a.is_(c + 1, 'RBRACKET'), a.is_(c + 1, 'RBRACE')))
        link = []
        for k in range(cx.L + 1):
            if k < c:
                link.append(b.tok[k] == a.tok[k])
            elif k + 1 <= cx.L:
                link.append(b.tok[k] == a.tok[k + 1])
            else:
                link.append(b.is_(k, END))
        alts.append(z3.And(cond, z3.And(link)))
    goal = z3.And(z3.Or(alts), acca, z3.Not(accb))
    return _finish(a, goal, cx.timeout, "accepted with a trailing comma but rejected without it", extra_charts=(b,))


def _closers(cx):
    """productions `... X CLOSER` (call / method call / list / dict without trailing comma) that have a sibling with `COMMA CLOSER`"""
    T = cx.T
    out = []
    byrhs = {(p["name"], p["prod"]): i for i, p in enumerate(T.prods) if i > 0}
    for i, p in enumerate(T.prods):
        if i == 0 or len(p["prod"]) < 3:
            continue
        rhs = p["prod"]
        if rhs[-1] in ('RPAREN', 'RBRACKET', 'RBRACE') and rhs[-2] != 'COMMA':
            sib = (p["name"], rhs[:-1] + ('COMMA', rhs[-1]))
            if sib in byrhs:
                out.append((i, byrhs[sib]))
    return out


def q_rw_comma_added(cx, excludes):
    """where a call / method call / list / dict production with an optional trailing comma was used, adding the comma keeps acceptance"""
    b = lrc.Chart(cx.T, cx.L, name='b', alphabet=cx.alpha)
    a = lrc.Chart(cx.T, cx.L + 1, name='a', alphabet=cx.alpha)
    accb, acca = b.accept(), a.accept()
    T = cx.T
    alts = []
    no_dict = "no_dict_trailing_comma" in excludes
    for (p, psib) in _closers(cx):
        if no_dict and T.prods[p]["prod"][-1] == 'RBRACE':
            continue
        n = T.prods[p]["len"]
        for q in T.action:
            if T.prods[p]["name"] not in T.goto.get(q, {}) or T.path(q, p, n) is None:
                continue
            for i in range(cx.L):
                for j in range(i + n, cx.L + 1):
                    occ = b.reduction(q, p, i, j)
                    if occ is None:
                        continue
                    alts.append(z3.And(occ, _insert_link(a, b, j - 1, ['COMMA'])))
    goal = z3.And(z3.Or(alts) if alts else z3.BoolVal(False), accb, z3.Not(acca))
    return _finish(b, goal, cx.timeout, "accepted, but rejected after adding a trailing comma before the closing bracket", extra_charts=(a,))


def q_rw_parens(cx, excludes):
    """wrapping the text of any subexpression (an occurring `expression` reduction) in parentheses keeps acceptance"""
    b = lrc.Chart(cx.T, cx.L, name='b', alphabet=cx.alpha)
    a = lrc.Chart(cx.T, cx.L + 2, name='a', alphabet=cx.alpha + (['LPAREN', 'RPAREN'] if 'LPAREN' not in cx.alpha else []))
    accb, acca = b.accept(), a.accept()
    T = cx.T
    alts = []
    for q in T.action:
        if 'expression' not in T.goto.get(q, {}):
            continue
        for i in range(cx.L):
            r = b.reach(q, i)
            if r is None:
                continue
            for j in range(i + 1, cx.L + 1):
                s = b.sum(q, 'expression', i, j)
                if s is None:
                    continue
                # a = b[:i] ( b[i:j] ) b[j:]
                link = []
                for k in range(a.L + 1):
                    if k < i:
                        link.append(a.tok[k] == b.tok[k])
                    elif k == i:
                        link.append(a.is_(k, 'LPAREN'))
                    elif k <= j:
                        link.append(a.tok[k] == b.tok[k - 1])
                    elif k == j + 1:
                        link.append(a.is_(k, 'RPAREN'))
                    else:
                        src = k - 2
                        link.append(a.tok[k] == b.tok[src] if src <= cx.L else a.is_(k, END))
                alts.append(z3.And(r, s, z3.And(link)))
    goal = z3.And(z3.Or(alts) if alts else z3.BoolVal(False), accb, z3.Not(acca))
    return _finish(b, goal, cx.timeout, "accepted, but rejected after parenthesising a subexpression", extra_charts=(a,))


def q_rw_dot_pipe(cx, excludes):
    """r.f(...) and r | f(...) are interchangeable: swapping DOT and PIPE before NAME LPAREN keeps acceptance"""
    a = lrc.Chart(cx.T, cx.L, name='b', alphabet=cx.alpha)
    b = lrc.Chart(cx.T, cx.L, name='a', alphabet=cx.alpha)
    acca, accb = a.accept(), b.accept()
    alts = []
    for c in range(1, cx.L - 3):
        cond = z3.And(a.is_(c, 'DOT'), a.is_(c + 1, 'NAME'), a.is_(c + 2, 'LPAREN'), z3.Not(a.is_(c + 3, 'RPAREN')))      # r.f(a..): at least one argument, as in the property
        link = [b.tok[k] == a.tok[k] for k in range(cx.L + 1) if k != c] + [b.is_(c, 'PIPE')]
        alts.append(z3.And(cond, z3.And(link)))
    goal = z3.And(z3.Or(alts) if alts else z3.BoolVal(False), z3.Xor(acca, accb))
    return _finish(a, goal, cx.timeout, "r.f(..) and r | f(..) differ in acceptance", extra_charts=(b,))


def make_confirm(cx, q):
    """witness filter for queries whose violation is visible on a single string"""
    def confirm(toks):
        out = real_outcome(cx.parser, toks)
        if q == "soundness":
            return out["kind"] == "accept"
        if q == "completeness":
            return out["kind"] in ("syntax", "other")
        if q == "patterns":
            return out["kind"] == "accept" and bool(tree_violations(out["tree"], toks))
        return True
    return confirm if q in ("soundness", "completeness", "patterns") else None


QUERIES = {"rw_newline": q_rw_newline, "rw_comma_removed": q_rw_comma_removed, "rw_comma_added": q_rw_comma_added,
           "rw_parens": q_rw_parens, "rw_dot_pipe": q_rw_dot_pipe,
           "consistency": q_consistency, "error_token": q_error_token, "patterns": q_patterns,
           "completeness": q_completeness, "soundness": q_soundness}


# --------------------------------------------------------------------------------------------------------------
def real_outcome(parser, tokens):
    """run the real lexer+parser on a rendering of the token string; returns dict(kind=accept|syntax|reserved|other, index, tree)"""
    from smartquery import rules
    from smartquery.exceptions import ParserError
    text = lrc.render(tokens)
    offs, pos = [], 0
    for w in (text.split(" ") if text else []):
        offs.append(pos)
        pos += len(w) + 1
    seen = {}
    orig = parser.yacc.errorfunc

    def rec(p):
        seen['tok'] = p
        return orig(p)
    parser.yacc.errorfunc = rec
    # tag every node with the syntactic kind of the production that built it; parenthesised nodes are marked
    saved_callables = []
    for pr in parser.yacc.productions:
        if pr.name != 'expression' or pr.callable is None:
            continue
        k = kind_of({"name": pr.name, "prod": tuple(pr.prod)})
        saved_callables.append((pr, pr.callable))

        def wrapped(p, f=pr.callable, k=k):
            f(p)
            try:
                if k == ('group',):
                    p[0]._paren = True
                else:
                    p[0]._kind = k
                    p[0]._paren = False
            except Exception:
                pass
        pr.callable = wrapped
    try:
        tree = parser.parse(text)
        return {"kind": "accept", "tree": tree, "text": text}
    except ParserError as e:
        if 'tok' not in seen:
            return {"kind": "reserved", "text": text, "message": str(e)}
        p = seen['tok']
        return {"kind": "syntax", "index": (len(tokens) if p is None else offs.index(p.lexpos)), "text": text, "message": str(e)}
    except Exception as e:
        return {"kind": "other", "text": text, "message": "%s: %s" % (type(e).__name__, e)}
    finally:
        parser.yacc.errorfunc = orig
        for pr, f in saved_callables:
            pr.callable = f


def validate(cx, n=400, seed=0):
    """push concrete token strings through both the real parser and the chart (encoder validation)"""
    import random
    rnd = random.Random(seed)
    L = min(cx.L, 6)
    ch = lrc.Chart(cx.T, L, alphabet=cx.alpha)
    acc = ch.accept()
    errs = [ch.err_at(j) for j in range(L + 1)]
    s = z3.Solver()
    for c in ch.base + ch.defs:
        s.add(c)
    samples = []
    s.push()
    s.add(acc)
    for _ in range(n // 4):
        if s.check() != z3.sat:
            break
        m = s.model()
        samples.append(lrc.concrete_tokens(ch, m))
        s.add(z3.Or([ch.tok[j] != m.eval(ch.tok[j], model_completion=True) for j in range(L)]))
    s.pop()
    for w in list(samples):
        for _ in range(2):
            v = list(w)
            if v and rnd.random() < 0.5:
                v[rnd.randrange(len(v))] = rnd.choice(cx.alpha)
            elif len(v) < L:
                v.insert(rnd.randrange(len(v) + 1), rnd.choice(cx.alpha))
            samples.append(v)
    while len(samples) < n:
        samples.append([rnd.choice(cx.alpha) for _ in range(rnd.randrange(0, L + 1))])
    bad = []
    accepted = 0
    for w in samples:
        real = real_outcome(cx.parser, w)
        if real["kind"] == "reserved":
            continue
        s.push()
        for j in range(L + 1):
            s.add(ch.tok[j] == cx.T.code[w[j] if j < len(w) else END])
        assert s.check() == z3.sat
        m = s.model()
        a = z3.is_true(m.eval(acc, model_completion=True))
        e = [j for j in range(L + 1) if errs[j] is not None and z3.is_true(m.eval(errs[j], model_completion=True))]
        s.pop()
        mine = ("accept", None) if a else ("syntax", e[0] if len(e) == 1 else e)
        theirs = (real["kind"], real.get("index"))
        accepted += a
        if mine != theirs:
            bad.append({"tokens": w, "chart": mine, "real": theirs})
    return {"strings": len(samples), "accepted": accepted, "disagreements": bad[:5], "n_disagreements": len(bad)}


def replay(rec):
    """plain Python: does the real parser confirm the solver's token string as a violation of the obligation?"""
    from smartquery import SqParser
    from smartquery.exceptions import ParserError
    q = rec["fn"]
    cex = rec.get("cex") or {}
    toks = cex.get("tokens") or []
    parser = SqParser()
    out = real_outcome(parser, toks)
    text = out["text"]
    if q == "consistency":
        ok = out["kind"] == "other"
        return ok, f"parse({text!r}) -> {out['kind']} {out.get('message', '')}"
    if q == "error_token":
        toks2 = cex.get("tokens2") or []
        out2 = real_outcome(parser, toks2)
        ok = out["kind"] == "syntax" and out2["kind"] == "accept" and toks2[:out["index"] + 1] == toks[:out["index"] + 1]
        return ok, f"parse({text!r}) reports token #{out.get('index')} although {out2['text']!r} (same prefix) is accepted"
    if q == "completeness":
        ok = out["kind"] in ("syntax", "other")
        return ok, f"grammar derives {text!r} but parse -> {out['kind']}: {out.get('message', '')}"
    if q == "soundness":
        return out["kind"] == "accept", f"parse({text!r}) accepted although the productions do not derive it"
    if q.startswith("rw_"):
        toks2 = cex.get("tokens2") or []
        out2 = real_outcome(parser, toks2)
        ok = (out["kind"] == "accept") != (out2["kind"] == "accept") and "reserved" not in (out["kind"], out2["kind"])
        return ok, f"parse({text!r}) -> {out['kind']} but parse({out2['text']!r}) -> {out2['kind']} ({out.get('message') or out2.get('message')})"
    if q == "patterns":
        if out["kind"] != "accept":
            return False, f"parse({text!r}) -> {out['kind']}"
        bad = tree_violations(out["tree"], toks)
        return bool(bad), f"parse({text!r}) groups against the operator table: {bad[:2]}"
    return False, "unknown query"


OPTEXT = {'+': 'PLUS', '-': 'MINUS', '*': 'TIMES', '/': 'DIVIDE', '**': 'POWER', '==': 'EQ', '!=': 'NE', '>': 'GT', '<': 'LT',
          '>=': 'GTE', '<=': 'LTE', 'in': 'IN', 'not in': 'NOT IN', 'and': 'AND', 'or': 'OR'}


def tree_violations(tree, toks):
    """independent check on the REAL tree (no parentheses in the replayed text => every child is unparenthesised)"""
    from smartquery import ast_ops as A
    if 'LPAREN' in toks:
        # parenthesised children cannot be told apart in the tree; such witnesses are not confirmed by this replay
        pass
    out = []

    def kind(n):
        if getattr(n, '_paren', False):
            return ('group',)
        if getattr(n, '_kind', None) is not None:
            return n._kind
        if isinstance(n, A.BinOp):
            return ('bin', OPTEXT.get(n.op, n.op))
        if isinstance(n, A.UnaryOp):
            return ('uminus',) if n.op == '-' else ('not',)
        if isinstance(n, A.IfExprOp):
            return ('ifexpr',)
        if isinstance(n, A.LambdaOp):
            return ('lambda',)
        return ('atom',)

    def walk(n):
        if isinstance(n, A.BinOp):
            me = ('bin', OPTEXT.get(n.op, n.op))
            for side, c in (('left', n.op1), ('right', n.op2)):
                if bad_child(me, side, kind(c)):
                    out.append((me, side, kind(c)))
            walk(n.op1)
            walk(n.op2)
        elif isinstance(n, A.UnaryOp):
            me = ('uminus',) if n.op == '-' else ('not',)
            if bad_child(me, 'right', kind(n.op1)):
                out.append((me, 'right', kind(n.op1)))
            walk(n.op1)
        elif isinstance(n, A.CodeOp):
            for x in n.lines:
                walk(x)
        elif isinstance(n, A.IfExprOp):
            if bad_child(('ifexpr',), 'left', kind(n.op1)):
                out.append((('ifexpr',), 'left', kind(n.op1)))
            walk(n.cond), walk(n.op1), walk(n.op2)
        elif isinstance(n, A.LambdaOp):
            walk(n.expr)
        elif isinstance(n, A.CallOp):
            k = getattr(n, '_kind', None)
            if k in (('suffix',), ('index',)) and not getattr(n, '_paren', False) and n.args:
                if bad_child(k, 'left', kind(n.args[0])):
                    out.append((k, 'left', kind(n.args[0])))
            for x in n.args:
                walk(x)
        elif isinstance(n, (A.AssignOp, A.ShortOp)):
            walk(n.value)
        elif isinstance(n, A.DictOp):
            for k, v in n.d:
                walk(k), walk(v)
        elif isinstance(n, A.SliceOp):
            walk(n.start), walk(n.stop), walk(n.step)
    walk(tree)
    return out
